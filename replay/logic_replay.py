"""Native replay / bounded stand-in for C19 (runs under /venv/bin/python against
/repo): twin worlds (the shorthand on one, the World call on the other, then
compare results and every query), references, and an exhaustive enumeration of
Prototype recipes: for each listed type every combination of the three
construction sources, default and custom prefixes, subclass overrides."""
import itertools
import json
import sys


TRIED = [0]


def twin_check():
    import desper

    events = {}

    @desper.event_handler('on_add', 'on_remove')
    class A:
        # lifecycle callbacks are part of the effect of the World call: logged per twin
        def on_add(self, entity, world):
            events.setdefault(id(world), []).append(('on_add', type(self).__name__, entity))

        def on_remove(self, entity, world):
            events.setdefault(id(world), []).append(('on_remove', type(self).__name__, entity))

    class B(A):
        pass

    class P1(desper.Processor):
        def process(self, dt):
            pass

    class Mid(desper.Processor):
        priority = 5

        def process(self, dt):
            pass

    class Late(P1):
        priority = 10

    class Ctl(desper.Controller):
        a = desper.ComponentReference(A)
        p = desper.ProcessorReference(P1)

    import abc
    import typing

    class V(abc.ABC):
        """Only a virtual base of B: World queries walk real subclasses, so V finds nothing."""
    V.register(B)

    @typing.runtime_checkable
    class HasOnAdd(typing.Protocol):
        def on_add(self, entity, world): ...
    QT = {'A': A, 'B': B, 'V': V, 'object': object, 'Proto': HasOnAdd}

    def snapshot(w, comps):
        return (sorted(map(repr, w.entities)), list(events.get(id(w), [])),
                [[type(x).__name__ for x in w.get_components(e)] if w.entity_exists(e) else None for e in (1,)],
                [[id(c) in [id(x) for x in w.get_components(e)] for c in comps] for e in (1, 2, 3)],
                [w.has_component(e, T) for e in (1, 2) for T in QT.values()],
                [type(p).__name__ for p in w.processors])

    def both(f1, f2):
        out = []
        for f in (f1, f2):
            try:
                out.append(('ok', f()))
            except Exception as e:      # noqa
                out.append(('raised', type(e).__name__))
        return out
    ops = ['add_A', 'add_B', 'get_components', 'delete',
           'ref_get', 'ref_set', 'ref_del', 'pref_set', 'pref_get', 'pref_del', 'process'] \
        + ['%s_%s' % (v, t) for v in ('has', 'get', 'remove') for t in QT]
    for seq in itertools.product(ops, repeat=3):
        events.clear()
        TRIED[0] += 1
        w1, w2 = desper.World(), desper.World()
        c1, c2 = Ctl(), Ctl()
        w1.create_entity(c1)
        w2.create_entity(c2)
        if (c1.entity, c1.world) != (1, w1):
            return ('C19', 'Controller.on_add did not record its entity and world', 'on_add')
        pool = [A(), B(), A(), B(), P1(), P1()]
        for k, op in enumerate(seq):
            verb, _, tn = op.partition('_')
            T = QT.get(tn)
            use_fn = (k % 2 == 0)      # alternate the method alias and the module-level function
            if op == 'add_A':
                r = both(lambda: c1.add_component(pool[0]), lambda: w2.add_component(c2.entity, pool[2]))
            elif op == 'add_B':
                r = both(lambda: desper.add_component(c1, pool[1]), lambda: w2.add_component(c2.entity, pool[3]))
            elif verb == 'remove' and T is not None:
                r = both(lambda: type((desper.remove_component(c1, T) if use_fn else c1.remove_component(T))),
                         lambda: type(w2.remove_component(c2.entity, T)))
            elif verb == 'has' and T is not None:
                r = both(lambda: (desper.has_component(c1, T) if use_fn else c1.has_component(T)),
                         lambda: w2.has_component(c2.entity, T))
            elif verb == 'get' and T is not None:
                r = both(lambda: type((desper.get_component(c1, T) if use_fn else c1.get_component(T))),
                         lambda: type(w2.get_component(c2.entity, T)))
            elif op == 'get_components':
                r = both(lambda: [type(x).__name__ for x in c1.get_components()],
                         lambda: [type(x).__name__ for x in w2.get_components(c2.entity)])
            elif op == 'delete':
                r = both(lambda: c1.delete(), lambda: w2.delete_entity(c2.entity))
            elif op == 'ref_get':
                r = both(lambda: type(c1.a), lambda: type(w2.get_component(c2.entity, A)))
            elif op == 'ref_set':
                r = both(lambda: setattr(c1, 'a', pool[0]), lambda: w2.add_component(c2.entity, pool[2]))
            elif op == 'ref_del':
                r = both(lambda: delattr(c1, 'a'), lambda: (w2.remove_component(c2.entity, A), None)[1])
            elif op == 'pref_set':
                r = both(lambda: setattr(c1, 'p', pool[4]), lambda: w2.add_processor(pool[5]))
            elif op == 'pref_get':
                r = both(lambda: type(c1.p), lambda: type(w2.get_processor(P1)))
            elif op == 'pref_del':
                r = both(lambda: delattr(c1, 'p'), lambda: (w2.remove_processor(P1), None)[1])
            elif op == 'process':
                r = both(lambda: w1.process(1), lambda: w2.process(1))
            if r[0] != r[1]:
                return ('C19', '%s through the controller gave %r, the World call %r (after %r)'
                        % (op, r[0], r[1], seq[:k]), 'result')
            s1 = snapshot(w1, pool[:2])
            s2 = snapshot(w2, pool[2:4])
            if s1 != s2:
                return ('C19', 'worlds differ after %s in %r' % (op, seq), 'effect')
    # references with processors whose priority is not the declared type's default
    for make in (lambda: Late(), lambda: (lambda p: (setattr(p, 'priority', 7), p)[1])(P1())):
        w1, w2 = desper.World(), desper.World()
        c1 = Ctl()
        w1.create_entity(c1)
        w1.add_processor(Mid()); w2.add_processor(Mid())
        pa, pb = make(), make()
        c1.p = pa
        w2.add_processor(pb)
        if [type(p).__name__ for p in w1.processors] != [type(p).__name__ for p in w2.processors] \
                or pa.priority != pb.priority:
            return ('C19', 'assigning a ProcessorReference gives order %r priority %r, World.add_processor %r priority %r'
                    % ([type(p).__name__ for p in w1.processors], pa.priority,
                       [type(p).__name__ for p in w2.processors], pb.priority), 'procref-priority')
    # OnUpdateProcessor
    log = []

    @desper.event_handler('on_update')
    class U:
        def on_update(self, dt):
            log.append(dt)
    w = desper.World()
    w.add_processor(desper.OnUpdateProcessor())
    w.create_entity(U()); w.create_entity(U())
    for dt in (0, 0.25, 3):
        del log[:]
        w.process(dt)
        if log != [dt, dt]:
            return ('C19', 'on_update listeners got %r for dt=%r' % (log, dt), 'on_update')
    return None


def prototype_check():
    import desper
    made = []

    class X:
        def __init__(self, how='default'):
            self.how = how
            made.append(self)

    class Y(X):
        pass

    class Z(X):
        pass
    types = (X, Y, Z)
    for prefix in ('init_', 'make_'):
        for mask in itertools.product(range(4), repeat=3):
            # per type: bit0 = entry in init_methods, bit1 = method prefix+name defined
            ns = {'component_types': types, 'init_prefix': prefix, 'init_methods': {}}
            for t, m in zip(types, mask):
                if m & 1:
                    ns['init_methods'][t] = (lambda t: lambda ct: t('init_methods'))(t)
                if m & 2:
                    ns[prefix + t.__name__] = (lambda t: lambda self, ct: t('method'))(t)
                # a method with the OTHER prefix must be ignored
                other = 'make_' if prefix == 'init_' else 'init_'
                ns[other + t.__name__] = (lambda t: lambda self, ct: t('wrong-prefix'))(t)
            Proto = type('Proto', (desper.Prototype,), ns)
            for P in (Proto, type('Sub', (Proto,), {})):
                p = P()
                first = list(p)
                second = list(p)
                for got in (first, second):
                    if [type(c) for c in got] != list(types):
                        return ('C19', 'prototype yields %r, expected one component per listed type in order' % ([type(c).__name__ for c in got],), 'proto-types')
                    for c, t, m in zip(got, types, mask):
                        exp = 'init_methods' if m & 1 else ('method' if m & 2 else 'default')
                        if c.how != exp:
                            return ('C19', 'component %s built by %r, expected %r (prefix %r, mask %r)' % (t.__name__, c.how, exp, prefix, mask), 'proto-source')
                if any(a is b for a in first for b in second):
                    return ('C19', 'two iterations of a prototype share a component', 'proto-fresh')
    return None


def main():
    req = json.loads(sys.stdin.read())
    skip = set(req.get('skip_signatures') or [])
    for fn in (prototype_check, twin_check):
        v = fn()
        if v and '%s:%s' % (v[0], v[2]) not in skip:
            print(json.dumps({'status': 'reproduced', 'history': {'scenario': fn.__name__},
                              'observed': v[1], 'signature': '%s:%s' % (v[0], v[2]),
                              'found_by': 'native bounded enumeration'}))
            return
    print(json.dumps({'status': 'not-found', 'tried': TRIED[0] + 256,
                      'bound': 'every sequence of 3 shorthand operations out of 26 (5 query types incl. a '
                               'virtual base, object and a runtime-checkable protocol) on twin worlds; '
                               'all 2*4^3*2 prototype recipes'}))


if __name__ == '__main__':
    main()
