"""Native replay / witness search for the resource-tree properties C11, C12, C17
(runs under /venv/bin/python against /repo).

Histories of ResourceMap operations with keys of depth 1..3 over a tiny alphabet;
values are counting handles (loading None, 0, [], a falsy object, ...), empty,
pre-populated or layered maps.  The oracle is a reference tree (nested dicts) plus
the statements of the properties: same resource through every access path,
default iff KeyError, one kind per name (latest wins), back-links of every
reachable node, clear() leaves nothing reachable, at most one load between clears
and identical objects, static snapshot mirrors the map and is immutable.
"""
import itertools
import json
import sys


class Falsy:
    def __bool__(self):
        return False

    def __eq__(self, other):
        return False

    __hash__ = object.__hash__


def mk_handle_class():
    import desper

    class CH(desper.Handle):
        def __init__(self, value):
            self.value = value
            self.loads = 0

        def load(self):
            self.loads += 1
            return self.value
    return CH


def mk_falsy_handles(CH):
    class EmptyHandle(CH):
        """A handle that is falsy (sized like an empty collection)."""
        def __len__(self):
            return 0

    class LazyTruthHandle(CH):
        """A handle that is truthy only once its resource is cached."""
        def __bool__(self):
            return self.cached
    return EmptyHandle, LazyTruthHandle


class Anything:
    """Equal to everything (like unittest.mock.ANY)."""
    def __eq__(self, other):
        return True

    __hash__ = object.__hash__


VALUES = [None, 0, [], 'res']


def reachable(m, seen=None):
    """(container, name, node, layer) for every node reachable from m."""
    out = []
    for k, sub in m.maps.items():
        out.append((m, k, sub, None))
        out.extend(reachable(sub))
    for j, layer in enumerate(m.handles.maps):
        for k, h in layer.items():
            out.append((m, k, h, j))
    return out


def check_tree(root, model, CH, handles):
    import desper
    # back-links
    for cont, name, node, layer in reachable(root):
        if node.parent is not cont or node.key != name:
            return ('C11', 'node stored under %r has parent/key %r/%r instead of its container/name'
                    % (name, node.parent, node.key), 'backlinks')
    # exclusivity + paths against the model
    def walk_model(md, path):
        cur = md
        for p in path:
            if not isinstance(cur, dict) or p not in cur:
                return KeyError
            cur = cur[p]
        return cur
    # probe every path over the component names that occur in the model (the empty string is
    # a legal component), depth 1..3
    names = set('ab')

    def collect(md):
        for k_, v_ in md.items():
            names.add(k_)
            if isinstance(v_, dict):
                collect(v_)
    collect(model)
    alphabet = sorted(names)[:5]
    paths = []
    for depth in (1, 2, 3):
        for combo in itertools.product(alphabet, repeat=depth):
            paths.append(combo)
    for path in paths:
        key = '/'.join(path)
        exp = walk_model(model, path)
        sentinel = object()
        got = root.get(key, sentinel)
        try:
            item = root[key]
            raised = False
        except KeyError:
            raised = True
            item = None
        if (got is sentinel) != raised:
            return ('C11', 'get(%r) returns its default: %r, [] raises KeyError: %r' % (key, got is sentinel, raised), 'default-iff-keyerror')
        if exp is KeyError:
            if not raised:
                return ('C11', '%r resolves although nothing was stored there' % key, 'ghost-entry')
            continue
        if raised:
            return ('C11', '%r does not resolve although %r was stored there' % (key, exp), 'lost-entry')
        if isinstance(exp, dict):
            if not isinstance(got, desper.ResourceMap) or item is not got:
                return ('C11', '%r should be a sub-map (latest assignment wins), got %r' % (key, got), 'latest-wins')
        else:
            if got is not exp:
                return ('C11', 'get(%r) is not the handle assigned last' % key, 'latest-wins')
            if item is not got():
                return ('C11', '[%r] is not get(%r)()' % (key, key), 'same-resource')
            # chained access
            cur = root
            try:
                for p in path:
                    cur = cur[p]
                if cur is not item:
                    return ('C11', 'chained access of %r differs from the composite key' % key, 'chained')
            except KeyError:
                return ('C11', 'chained access of %r raises KeyError' % key, 'chained')
    for h in handles:
        if h.loads > 1 + h.clears:
            return ('C12', 'a handle loaded %d times with %d clears' % (h.loads, h.clears), 'load-count')
    return None


def run_history(history):
    import desper
    CH = mk_handle_class()
    root = desper.ResourceMap()
    model = {}
    handles = []
    named = {}
    for step, op in enumerate(history):
        kind = op[0]
        try:
            if kind == 'set':
                _, key, what = op
                path = key.split('/')
                if what[0] == 'h' and what[1] in (6, 7):
                    v = mk_falsy_handles(CH)[what[1] - 6]('res%d' % step)
                    v.clears = 0
                    handles.append(v)
                    mv = v
                elif what[0] == 'h':
                    v = CH(VALUES[what[1] % len(VALUES)] if what[1] < 4 else (Falsy() if what[1] == 4 else Anything()))
                    v.clears = 0
                    handles.append(v)
                    mv = v
                elif what[0] == 'm':
                    v = desper.ResourceMap()
                    mv = {}
                    if what[1]:
                        hh = CH('inner')
                        hh.clears = 0
                        handles.append(hh)
                        v['a'] = hh
                        mv = {'a': hh}
                elif what[0] == 'layer':
                    # push a new layer of handles on the addressed map (nest_on_conflict)
                    cur = root
                    for p in path[:-1]:
                        cur = cur.maps[p]
                    cur.handles.maps.insert(0, {})
                    continue
                root[key] = v
                cur = model
                for p in path[:-1]:
                    if not isinstance(cur.get(p), dict):
                        cur[p] = {}
                    cur = cur[p]
                cur[path[-1]] = mv
            elif kind == 'alias':
                # the same handle object stored under a second name (beyond a tree: only the
                # snapshot comparison of C17 is judged on such histories)
                h = root.get(op[1])
                if isinstance(h, desper.Handle):
                    root[op[2]] = h
                    named['aliased'] = True
                    cur = model
                    path = op[2].split('/')
                    for p in path[:-1]:
                        if not isinstance(cur.get(p), dict):
                            cur[p] = {}
                        cur = cur[p]
                    cur[path[-1]] = h
                continue
            elif kind == 'clear':
                key = op[1]
                cur, mcur = root, model
                if key:
                    for p in key.split('/'):
                        cur = cur.maps[p]
                        mcur = mcur[p]
                children = [n for c, k, n, l in reachable(cur) if c is cur]
                cur.clear()
                mcur.clear()
                if cur.maps or any(cur.handles.maps) or len(cur.handles):
                    return ('C11', 'clear() left entries in the map', 'clear-leftovers')
                for n in (children if not named.get('aliased') else ()):
                    if n.parent is not None or n.key is not None:
                        return ('C11', 'clear() did not detach a former direct child', 'clear-detach')
            elif kind == 'access':
                # every access path to a handle loads at most once and returns one object
                key = op[1]
                h = root.get(key)
                if isinstance(h, desper.Handle):
                    before = h.loads
                    was_cached = h.cached
                    a = root[key]
                    b = h()
                    st = root.get_static_map()
                    cur = st
                    for p in key.split('/'):
                        cur = cur[p]
                    c = cur
                    if not (a is b and b is c):
                        return ('C12', 'access paths of %r return different objects' % key, 'identity')
                    if h.loads - before != (0 if was_cached else 1):
                        return ('C12', '%d loads for one uncached resource (cached before: %r)' % (h.loads - before, was_cached), 'load-count')
                    if not h.cached:
                        return ('C12', 'cached is False right after an access', 'cached-flag')
            elif kind == 'callall':
                # every handle the program ever made, attached or not (a replaced handle is
                # still a handle the program may hold): calling it loads at most once
                for h in handles:
                    r1 = h()
                    if h() is not r1:
                        return ('C12', 'two calls of one handle return different objects', 'identity')
            elif kind == 'reassign':
                # the handle found under a key is assigned to that key again
                h = root.get(op[1])
                if isinstance(h, desper.Handle):
                    root[op[1]] = h
            elif kind == 'hclear':
                h = root.get(op[1])
                if isinstance(h, desper.Handle):
                    h.clear()
                    h.clears += 1
                    if h.cached:
                        return ('C12', 'cached is True right after clear()', 'cached-flag')
            elif kind == 'static':
                v = check_static(root)
                if v:
                    return v
        except KeyError:
            continue
        except Exception as e:      # noqa
            return ('C11', 'operation %r raised %r' % (op, e), 'exception')
        if named.get('aliased'):
            continue
        v = check_tree(root, model, CH, handles)
        if v:
            return v
    return None


def check_static(root):
    import desper
    st = root.get_static_map()

    def rec(m, s, path):
        for k, sub in m.maps.items():
            if s.get(k) is None:
                return ('C17', 'sub-map %r missing from the snapshot' % k, 'static-missing')
            v = rec(sub, s[k], path + [k])
            if v:
                return v
        for k in m.handles:
            h = m.handles[k]
            if s.get(k) is not h:
                return ('C17', 'snapshot.get(%r) is not the map\'s handle' % k, 'static-get')
            if s[k] is not h():
                return ('C17', 'snapshot[%r] is not the loaded resource' % k, 'static-item')
            if k.isidentifier() and getattr(s, k) is not h():
                return ('C17', 'snapshot.%s is not the loaded resource' % k, 'static-attr')
        present = set(n_ for n_ in getattr(type(s), '__slots__', ()) if n_ != '__dict__')
        try:
            present |= set(object.__getattribute__(s, '__dict__'))
        except AttributeError:
            pass
        for bad in sorted(present | {'zz_absent', 'a', 'b', 'c', 'd', 'b-1', '__p'}):
            if bad in m.handles or bad in m.maps or bad == '_handle_names':
                continue
            try:
                s.get(bad)
                return ('C17', 'name %r is absent from the map %r but present in the snapshot'
                        % (bad, '/'.join(path)), 'static-extra')
            except AttributeError:
                pass
        for name in list(m.handles) + list(m.maps) + ['brand_new']:
            if not name.isidentifier():
                continue
            for act in ('set', 'del'):
                try:
                    if act == 'set':
                        setattr(s, name, 1)
                    else:
                        delattr(s, name)
                    return ('C17', '%sattr on the snapshot did not raise' % act, 'static-mutable')
                except (ValueError, AttributeError):
                    pass
        return None
    return rec(root, st, [])


def families(pid, tier):
    keys = ['a', 'b', 'a/b', 'a/a', 'a/b/a', 'b/a']
    vals = [('h', 0), ('h', 1), ('h', 4), ('h', 5), ('m', 0), ('m', 1)]
    ops = [('set', k, v) for k in keys for v in vals]
    ops += [('set', 'a', ('layer',)), ('set', 'a/b', ('layer',)), ('clear', ''), ('clear', 'a'),
            ('access', 'a'), ('access', 'a/b'), ('hclear', 'a'), ('static',)]
    n = 3 if tier != 'thorough' else 4
    if pid == 'C12':
        ops = [('set', 'a', ('h', i)) for i in range(6)] + [('set', 'a/b', ('h', 0)), ('access', 'a'),
                                                             ('access', 'a/b'), ('hclear', 'a'), ('static',),
                                                             ('callall',), ('reassign', 'a')]
        n += 1
    if pid == 'C17':
        ops = [('set', k, v) for k in ('a', 'a/b', 'b-1', '__p') for v in (('h', 0), ('h', 1), ('m', 1))]
        ops += [('set', 'a', ('layer',)), ('set', 'a/b', ('layer',)), ('alias', 'a', 'c'), ('alias', 'a', 'a/c'),
                ('alias', 'a/b', 'd'), ('set', 'a', ('h', 6)),
                # snapshots taken in the middle of a history, clears of the root and of a sub-map
                ('static',), ('clear', ''), ('clear', 'a')]
        # every history ends with the comparison of the snapshot with the map
        for k in range(1, n + 1):
            for combo in itertools.product(ops, repeat=k):
                yield list(combo) + [('static',)]
        return
    if pid == 'C11':
        # handles whose truth value is False (sized like an empty collection, or truthy only
        # once cached): every access path still finds them
        fops = [('set', k, ('h', i)) for k in ('a', 'a/b') for i in (6, 7)] + [
            ('access', 'a'), ('access', 'a/b'), ('clear', 'a'), ('set', 'a', ('layer',))]
        for k in range(1, 4):
            for combo in itertools.product(fops, repeat=k):
                yield list(combo)
        # keys with empty path components (the empty string is a legal component)
        ekeys = ['/x', 'x', '', 'a//b', 'x/', '//x', 'a/']
        eops = [('set', k, v) for k in ekeys for v in (('h', 0), ('h', 1), ('m', 0))]
        for k in range(1, 3):
            for combo in itertools.product(eops, repeat=k):
                yield list(combo)
    for k in range(1, n + 1):
        for combo in itertools.product(ops, repeat=k):
            yield list(combo)


def main():
    req = json.loads(sys.stdin.read())
    pid = req.get('property')
    if req['mode'] == 'replay' and req.get('history'):
        hist = [tuple(tuple(x) if isinstance(x, list) else x for x in o) for o in req['history']['ops']]
        v = run_history(hist)
        print(json.dumps({'status': 'reproduced' if v else 'held', 'history': {'ops': hist},
                          'observed': v and v[1], 'signature': v and '%s:%s' % (v[0], v[2])}, default=str))
        return
    if req['mode'] == 'replay':
        print(json.dumps({'status': 'no-witness'}))
        return
    skip = set(req.get('skip_signatures') or [])
    want = req.get('want_signature')
    tried = 0
    cut = None       # set when the enumeration is cut at the cap of this tier
    for hist in families(pid, req.get('tier', 'quick')):
        tried += 1
        v = run_history(hist)
        if v:
            sig = '%s:%s' % (v[0], v[2])
            if sig in skip or (want and sig != want):
                continue
            print(json.dumps({'status': 'reproduced', 'history': {'ops': hist}, 'observed': v[1],
                              'violates': v[0], 'found_by': 'native bounded search', 'signature': sig},
                             default=str))
            return
        if tried > (40000 if req.get('tier', 'quick') != 'thorough' else 400000):
            cut = tried
            break
    print(json.dumps({'status': 'not-found', 'tried': tried, 'truncated_at': cut}))


if __name__ == '__main__':
    main()
