"""Native replay / search for C20 (runs under /venv/bin/python against /repo)."""
import json
import sys
from fractions import Fraction


SAME = '<the current value>'


def run(cls_name, prop, value, twice=False):
    import desper
    import desper.math as dm
    log = []

    @desper.event_handler('on_position_change', 'on_rotation_change', 'on_scale_change')
    class L:
        def on_position_change(self, v): log.append(('on_position_change', v))
        def on_rotation_change(self, v): log.append(('on_rotation_change', v))
        def on_scale_change(self, v): log.append(('on_scale_change', v))
    t = getattr(desper, cls_name)()
    l1, l2 = L(), L()
    t.add_handler(l1)
    t.add_handler(l2)
    if value == SAME:
        # assigning the value the property already holds (default of a fresh transform,
        # `t.position = t.position`, a zero delta) still notifies once
        value = getattr(t, prop)
        if isinstance(value, tuple):
            value = tuple(value)
    if twice:
        setattr(t, prop, value)
        del log[:]
    others = {p: getattr(t, p) for p in ('position', 'rotation', 'scale') if p != prop}
    setattr(t, prop, value)
    read = getattr(t, prop)
    exp_event = 'on_%s_change' % prop
    problems = []
    if [e for e, _ in log] != [exp_event, exp_event]:
        problems.append('events delivered %r, expected %s once per listener' % ([e for e, _ in log], exp_event))
    for e, v in log:
        if v != read or type(v) is not type(read):
            problems.append('listener told %r, a read of %s returns %r' % (v, prop, read))
            break
    for p, old in others.items():
        if getattr(t, p) != old:
            problems.append('%s changed' % p)
    if cls_name == 'Transform2D' and prop == 'rotation' and not (0 <= read < 360):
        problems.append('stored rotation %r not in [0, 360)' % (read,))
    return problems


def observing_listeners(cls_name, prop, value):
    """A listener that reads the property back while it is being notified sees the carried
    value; a listener that fails does not undo the assignment."""
    import desper
    ev = 'on_%s_change' % prop
    seen = []
    t = getattr(desper, cls_name)()

    def cb(self, v):
        seen.append((v, getattr(t, prop)))
    Reader = desper.event_handler(ev)(type('Reader', (), {ev: cb}))
    r = Reader()
    t.add_handler(r)
    setattr(t, prop, value)
    problems = []
    for carried, read in seen:
        if read != carried:
            problems.append('a listener notified with %r read %s == %r during the notification'
                            % (carried, prop, read))
    if len(seen) != 1:
        problems.append('%d notifications for one assignment' % len(seen))

    class Boom(Exception):
        pass

    def bad(self, v):
        raise Boom()
    Failing = desper.event_handler(ev)(type('Failing', (), {ev: bad}))
    t2 = getattr(desper, cls_name)()
    f = Failing()
    t2.add_handler(f)
    try:
        setattr(t2, prop, value)
        problems.append('the exception of a listener did not propagate')
    except Boom:
        pass
    got = getattr(t2, prop)
    exp = (value % 360.) if (cls_name == 'Transform2D' and prop == 'rotation') else value
    if got != exp:
        problems.append('a listener was notified with %r but after its failure %s reads %r'
                        % (value, prop, got))
    return problems


def construction(cls_name):
    """Values given at construction are stored the way an assignment stores them (compared
    with a twin built with defaults and then assigned); defaults are not shared."""
    import desper
    import desper.math as dm
    cls = getattr(desper, cls_name)
    out = []
    for prop in ('position', 'rotation', 'scale'):
        for v in values_for(cls_name, prop):
            if v == SAME:
                continue
            a = cls(**{prop: v})
            b = cls()
            setattr(b, prop, v)
            for q in ('position', 'rotation', 'scale'):
                ra, rb = getattr(a, q), getattr(b, q)
                if ra != rb:
                    out.append((prop, v, '%s(%s=%r).%s reads %r, but %r after assigning the same value'
                                % (cls_name, prop, v, q, ra, rb)))
    x, y = cls(), cls()
    for q in ('position', 'scale'):
        if getattr(x, q) is getattr(y, q) and not isinstance(getattr(x, q), tuple):
            out.append((q, None, 'default %s shared between two instances' % q))
    return out


def values_for(cls_name, prop):
    import desper.math as dm
    if cls_name == 'Transform2D' and prop == 'rotation':
        return [0.0, 10.0, 359.5, 360.0, 370.0, -10.0, 725.25, -360.0, 1e6 + 0.5, SAME]
    V = dm.Vec2 if cls_name == 'Transform2D' else dm.Vec3
    n = 2 if cls_name == 'Transform2D' else 3
    return [V(*([1.5] * n)), V(*range(n)), V(*([-2.0] * n)), SAME, tuple([1.0] * n), tuple([0.0] * n)]


def main():
    req = json.loads(sys.stdin.read())
    ob = req.get('obligation') or {}
    contract = ob.get('contract') or ''
    parts = contract.split('.')
    cands = []
    if req['mode'] == 'replay' and ob.get('witness') and '.setter' in contract:
        cls_name, prop = parts[-3], parts[-2]
        w = ob['witness'].get('value')
        try:
            if isinstance(w, str):
                v = float(Fraction(w.replace('approx:', '')))
                cands.append((cls_name, prop, v))
        except Exception:
            pass
    if not cands or req['mode'] == 'search':
        for cls_name in ('Transform2D', 'Transform3D'):
            for prop in ('position', 'rotation', 'scale'):
                for v in values_for(cls_name, prop):
                    cands.append((cls_name, prop, v))
    cands = [c + (False,) for c in cands] + [c + (True,) for c in cands if req['mode'] == 'search' or not ob.get('witness')]
    for cls_name, prop, v, twice in cands:
        probs = run(cls_name, prop, v, twice)
        if probs:
            print(json.dumps({'status': 'reproduced',
                              'history': {'ops': [['new', cls_name], ['add_handler', 'l1'], ['add_handler', 'l2'],
                                                  ['set', prop, repr(v)]] * (2 if twice else 1)},
                              'observed': probs[0], 'signature': 'C20:%s.%s' % (cls_name, prop)}))
            return
    if req['mode'] == 'search' or not ob.get('witness'):
        for cls_name in ('Transform2D', 'Transform3D'):
            for prop, v, msg in construction(cls_name):
                print(json.dumps({'status': 'reproduced',
                                  'history': {'scenario': 'construction', 'class': cls_name,
                                              'property': prop, 'value': repr(v)},
                                  'observed': msg, 'signature': 'C20:%s.__init__' % cls_name}))
                return
    if req['mode'] == 'search':
        import desper.math as dm
        for cls_name in ('Transform2D', 'Transform3D'):
            for prop in ('position', 'rotation', 'scale'):
                if cls_name == 'Transform2D' and prop == 'rotation':
                    v = 30.0
                else:
                    V = dm.Vec2 if cls_name == 'Transform2D' else dm.Vec3
                    v = V(*([2.5] * (2 if cls_name == 'Transform2D' else 3)))
                probs = observing_listeners(cls_name, prop, v)
                if probs:
                    print(json.dumps({'status': 'reproduced',
                                      'history': {'scenario': 'observing_listeners', 'class': cls_name,
                                                  'property': prop, 'value': repr(v)},
                                      'observed': probs[0], 'signature': 'C20:%s.%s:observer' % (cls_name, prop)}))
                    return
    print(json.dumps({'status': 'not-found', 'tried': len(cands)}))


if __name__ == '__main__':
    main()
