"""Native replay / witness search for C13 and C14 (runs under /venv/bin/python
against /repo).

A scenario is a frame script for a SimpleLoop with a scripted time function: in
frame k the processor of the world being processed performs an action
(nothing / switch(handle, cc, cn) / raise SwitchWorld / quit_loop / raise Quit /
raise RuntimeError).  Worlds come from counting handles; listeners record
on_switch_in/on_switch_out/on_quit with the world instance that delivered them.
"""
import itertools
import json
import signal
import sys


class Hang(Exception):
    pass


def _alarm(s, f):
    raise Hang()


def run_scenario(script, readings, restarts=0):
    """script: list of actions per frame, each ('none',) | ('switch', hi, cc, cn) |
    ('raise_switch', hi, cc, cn) | ('quit_loop',) | ('quit',) | ('error',)."""
    import desper
    signal.signal(signal.SIGALRM, _alarm)
    signal.alarm(10)
    log = []            # ('process', world_id, dt) / ('in', world_id, from_id, to_id) / ...
    frame = [0]
    times = iter(readings)
    handles = []
    loop_box = [None]

    @desper.event_handler('on_switch_in', 'on_switch_out', 'on_quit')
    class Listener:
        def __init__(self, w):
            self.w = w

        def on_switch_in(self, f, t):
            log.append(('in', id(self.w), id(f) if f is not None else None, id(t)))

        def on_switch_out(self, f, t):
            log.append(('out', id(self.w), id(f) if f is not None else None, id(t)))

        def on_quit(self):
            log.append(('on_quit', id(self.w)))

    class Driver(desper.Processor):
        def process(self, dt):
            k = frame[0]
            frame[0] += 1
            log.append(('process', id(self.world), dt))
            act = script[k] if k < len(script) else ('quit',)
            if act[0] == 'none':
                return
            if act[0] == 'switch':
                desper.switch(handles[act[1]], clear_current=act[2], clear_next=act[3],
                              from_world=self.world)
            if act[0] == 'raise_switch':
                raise desper.SwitchWorld(handles[act[1]], clear_current=act[2], clear_next=act[3])
            if act[0] == 'direct_switch':
                # the public method of the loop, called from inside a frame: the frame ends
                # normally and the next one processes the new current world
                loop_box[0].switch(handles[act[1]])
                return
            if act[0] == 'quit_loop':
                desper.quit_loop(self.world)
            if act[0] == 'quit':
                raise desper.Quit()
            if act[0] == 'error':
                raise RuntimeError('scripted')

    class WH(desper.Handle):
        def __init__(self, n):
            self.n = n
            self.loads = 0
            self.instances = []

        def load(self):
            self.loads += 1
            w = desper.World()
            w.add_processor(Driver())
            lst = Listener(w)
            w.keep = lst
            w.create_entity(lst)
            self.instances.append(w)
            return w
    handles.extend([WH(0), WH(1)])
    loop = desper.SimpleLoop(lambda: next(times))
    loop_box[0] = loop
    loop.switch(handles[0])
    out = {'log': log, 'errors': [], 'starts': []}
    try:
        for r in range(restarts + 1):
            try:
                loop.start()
                out['starts'].append(('returned', loop.running, loop.last_timestamp))
            except RuntimeError:
                out['starts'].append(('error', loop.running, loop.last_timestamp))
            except StopIteration:
                out['starts'].append(('clock-exhausted', loop.running, loop.last_timestamp))
                break
    except Hang:
        out['errors'].append('hang')
    finally:
        signal.alarm(0)
    out['loads'] = [h.loads for h in handles]
    out['current'] = id(loop.current_world)
    out['handles'] = handles
    out['loop'] = loop
    return out


def judge(script, readings, restarts, out):
    log = out['log']
    if out['errors']:
        return ('C14', 'loop did not terminate', 'hang')
    # ---- C14: exact deltas, Quit returns cleanly, errors propagate, restart begins with 0
    procs = [e for e in log if e[0] == 'process']
    k = 0
    ri = 0
    first_of_start = True
    prev = None
    for idx, e in enumerate(procs):
        if first_of_start:
            exp = 0
            first_of_start = False
        else:
            exp = readings[k] - readings[k - 1]
        if e[2] != exp:
            return ('C14', 'frame %d got dt=%r, expected %r (readings %r)' % (idx, e[2], exp, readings[:k + 1]), 'dt')
        act = script[idx] if idx < len(script) else ('quit',)
        k += 1
        if act[0] in ('quit', 'quit_loop', 'error'):
            first_of_start = True
            ri += 1
    for st in out['starts']:
        if st[0] in ('returned', 'error') and (st[1] is not False or st[2] is not None):
            return ('C14', 'after start() %s: running=%r last_timestamp=%r' % (st[0], st[1], st[2]), 'start-exit')
    n_quit_loop = sum(1 for i, a in enumerate(script[:len(procs)]) if a[0] == 'quit_loop')
    if len([e for e in log if e[0] == 'on_quit']) != n_quit_loop:
        return ('C14', 'on_quit delivered %d times for %d quit_loop calls' % (
            len([e for e in log if e[0] == 'on_quit']), n_quit_loop), 'on_quit')
    # ---- C14: the loop processes its CURRENT world: after loop.switch(h) called from inside a
    # frame, the next frame belongs to the world that handle holds
    for idx, act in enumerate(script[:len(procs)]):
        if act[0] == 'direct_switch' and idx + 1 < len(procs):
            insts = [id(w) for w in out['handles'][act[1]].instances]
            if procs[idx + 1][1] not in insts:
                return ('C14', 'after loop.switch(h%d) inside frame %d the next frame processed another world '
                               'than the current one' % (act[1], idx), 'stale-world')
    # ---- C13: for every switch() request, out once in the world left, in once in the instance
    # that is processed next, target loaded as often as a fresh instance was required
    for idx, act in enumerate(script[:len(procs)]):
        if act[0] not in ('switch', 'raise_switch') or idx + 1 >= len(procs):
            continue
        left = procs[idx][1]
        entered = procs[idx + 1][1]
        if act[0] == 'switch':
            outs = [e for e in log if e[0] == 'out' and e[2] == left]
            if not any(e[1] == left for e in outs):
                return ('C13', 'on_switch_out was not delivered in the world being left', 'out')
            ins = [e for e in log if e[0] == 'in' and e[1] == entered and e[2] == left]
            # find the position of this switch among the log to count only its own event
            if len(ins) < 1:
                tag = 'in-lost' + (':clear_next' if act[3] else '') + (
                    ':clear_current-same-handle' if act[2] and not act[3] else '')
                return ('C13', 'switch(h%d, clear_current=%r, clear_next=%r): on_switch_in was not delivered '
                               'in the world instance that is processed next' % (act[1], act[2], act[3]), tag)
    return None


def scenarios(tier):
    acts = [('none',), ('switch', 1, False, False), ('switch', 0, False, False),
            ('switch', 1, True, False), ('raise_switch', 1, False, False), ('raise_switch', 1, False, True),
            ('quit_loop',), ('quit',), ('error',), ('switch', 1, False, True), ('switch', 0, True, False),
            ('direct_switch', 1), ('direct_switch', 0)]
    n = 3 if tier != 'thorough' else 4
    from fractions import Fraction as F
    big = 2 ** 60
    for readings in ([0, 3, 10, 17, 18, 19, 25, 26, 30, 31], [5, 5, 6, 9.5, 10, 12, 13, 20, 21, 22],
                     # exact clocks: integer ticks beyond 2**53 and rational fixed steps
                     [big, big + 100, big + 250, big + 251, big + 1000, big + 1001, big + 1002, big + 1500,
                      big + 1501, big + 1777],
                     [F(k_, 3) for k_ in (0, 1, 2, 4, 5, 6, 10, 11, 13, 14)]):
        for k in range(1, n + 1):
            for combo in itertools.product(acts, repeat=k):
                restarts = sum(1 for a in combo if a[0] in ('quit', 'quit_loop', 'error'))
                yield list(combo), readings, min(restarts, 2)


def quit_scenarios():
    """quit_loop(world) first delivers on_quit; whatever an on_quit handler raises (other than
    Quit) propagates out of start() like any other exception."""
    import desper

    class Boom(Exception):
        pass
    out = []
    for kind in ('error', 'ok'):
        calls = []

        @desper.event_handler('on_quit')
        class Saver:
            def on_quit(self):
                calls.append('on_quit')
                if kind == 'error':
                    raise Boom('save failed')

        class Driver(desper.Processor):
            def process(self, dt):
                desper.quit_loop(self.world)

        class WH(desper.Handle):
            def load(self):
                w = desper.World()
                w.add_processor(Driver())
                w.keep = Saver()
                w.create_entity(w.keep)
                return w
        loop = desper.SimpleLoop(iter(range(100)).__next__)
        loop.switch(WH())
        try:
            loop.start()
            if kind == 'error':
                out.append(('C14', 'an on_quit handler raised Boom during quit_loop(world) but start() '
                                   'returned normally: the exception did not propagate', 'quit-masks-error'))
        except Boom:
            if kind == 'ok':
                out.append(('C14', 'start() raised although nothing failed', 'quit-spurious-error'))
        except Exception as e:       # noqa
            out.append(('C14', 'start() raised %r' % (e,), 'quit-other-error'))
        if calls != ['on_quit']:
            out.append(('C14', 'on_quit delivered %d times by quit_loop' % len(calls), 'on_quit'))
        if loop.running is not False:
            out.append(('C14', 'running is %r after start() ended' % (loop.running,), 'start-exit'))
    return out


def onward_scenarios():
    """A switch requested by an event callback that is released WHILE a world is being entered
    (an on_switch_in listener of a loading-screen world that moves on at once): the loop serves
    it like any other request - the frame goes to the final target, start() does not raise."""
    import desper
    out = []
    for how in ('switch()', 'raise SwitchWorld'):
        log = []
        handles = {}
        frames = [0]

        @desper.event_handler('on_switch_in', 'on_switch_out')
        class Listener:
            def __init__(self, name):
                self.name = name

            def on_switch_in(self, f, t):
                log.append(('in', self.name))
                if self.name == 'B':
                    if how == 'switch()':
                        desper.switch(handles['C'])
                    else:
                        raise desper.SwitchWorld(handles['C'])

            def on_switch_out(self, f, t):
                log.append(('out', self.name))

        class Driver(desper.Processor):
            def process(self, dt):
                log.append(('process', self.world.name, dt))
                frames[0] += 1
                if frames[0] == 1:
                    desper.switch(handles['B'])
                if frames[0] >= 4:
                    raise desper.Quit()

        class WH(desper.Handle):
            def __init__(self, name):
                self.name = name

            def load(self):
                w = desper.World()
                w.name = self.name
                w.add_processor(Driver())
                w.keep = Listener(self.name)
                w.create_entity(w.keep)
                return w
        for n_ in 'ABC':
            handles[n_] = WH(n_)
        loop = desper.SimpleLoop(iter(range(0, 1000, 5)).__next__)
        signal.signal(signal.SIGALRM, _alarm)
        signal.alarm(10)
        try:
            saved = getattr(desper, 'default_loop', None)
            desper.default_loop = loop
            loop.switch(handles['A'])
            try:
                loop.start()
            except Hang:
                out.append(('C13', 'a switch requested while entering a world (%s): the loop hangs' % how,
                            'onward-hang'))
                continue
            except desper.SwitchWorld:
                out.append(('C13', 'an on_switch_in listener of the world being entered asked for a further switch '
                                   '(%s): SwitchWorld escaped from SimpleLoop.start() instead of being served '
                                   '(log %r)' % (how, log), 'onward-switch-escapes'))
                continue
            except Exception as e:      # noqa
                out.append(('C13', 'onward switch (%s): start() raised %r' % (how, e), 'onward-error'))
                continue
        finally:
            signal.alarm(0)
            desper.default_loop = saved
        procs = [e for e in log if e[0] == 'process']
        if [e[1] for e in procs] != ['A', 'C', 'C', 'C'] or [e[2] for e in procs] != [0, 5, 5, 5]:
            out.append(('C13', 'onward switch (%s): frames went to %r' % (how, procs), 'onward-frames'))
        if [e for e in log if e[0] == 'in'] != [('in', 'B'), ('in', 'C')][:2 if how == 'switch()' else 1]:
            out.append(('C13', 'onward switch (%s): on_switch_in deliveries %r'
                        % (how, [e for e in log if e[0] == 'in']), 'onward-in'))
    return out


def main():
    req = json.loads(sys.stdin.read())
    pid = req.get('property')
    skip = set(req.get('skip_signatures') or [])
    want = req.get('want_signature')
    if req['mode'] == 'replay' and req.get('history'):
        h = req['history']
        script = [tuple(a) for a in h['script']]
        from fractions import Fraction
        h['readings'] = [Fraction(r) if isinstance(r, str) else r for r in h['readings']]
        out = run_scenario(script, h['readings'], h.get('restarts', 0))
        v = judge(script, h['readings'], h.get('restarts', 0), out)
        print(json.dumps({'status': 'reproduced' if v else 'held', 'history': h, 'observed': v and v[1],
                          'signature': v and '%s:%s' % (v[0], v[2])}, default=str))
        return
    if req['mode'] == 'replay':
        print(json.dumps({'status': 'no-witness'}))
        return
    tried = 0
    for v in (onward_scenarios() if pid in ('C13', None) else []):
        sig = '%s:%s' % (v[0], v[2])
        if sig in skip or (want and sig != want):
            continue
        print(json.dumps({'status': 'reproduced', 'history': {'scenario': 'onward_scenarios'},
                          'observed': v[1], 'violates': v[0], 'found_by': 'native scenario',
                          'signature': sig}, default=str))
        return
    for v in quit_scenarios():
        sig = '%s:%s' % (v[0], v[2])
        if sig in skip or (want and sig != want):
            continue
        print(json.dumps({'status': 'reproduced', 'history': {'scenario': 'quit_scenarios'}, 'observed': v[1],
                          'violates': v[0], 'found_by': 'native scenario', 'signature': sig}, default=str))
        return
    for script, readings, restarts in scenarios(req.get('tier', 'quick')):
        tried += 1
        try:
            out = run_scenario(script, readings, restarts)
        except Exception as e:       # noqa
            v = ('C13', 'scenario raised %r' % (e,), 'exception')
        else:
            v = judge(script, readings, restarts, out)
        if v:
            sig = '%s:%s' % (v[0], v[2])
            if sig in skip or (want and sig != want):
                continue
            print(json.dumps({'status': 'reproduced',
                              'history': {'script': script, 'readings': readings, 'restarts': restarts},
                              'observed': v[1], 'violates': v[0], 'found_by': 'native bounded search',
                              'signature': sig}, default=str))
            return
    print(json.dumps({'status': 'not-found', 'tried': tried}))


if __name__ == '__main__':
    main()
