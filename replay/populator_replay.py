"""Native bounded stand-in / replay for C16 (runs under /venv/bin/python against /repo).

Directory trees are created for real in a temporary directory (removed afterwards);
a DirectoryResourcePopulator with a list of rules is applied once or twice to a
ResourceMap, optionally holding an older handle at a key a file is going to take.
The oracle is written from the property statement:

  * every regular file under an existing rule directory whose extension the rule
    accepts is reachable under root-relative key (extension dropped when trimming),
    through a handle built by the rule's factory from (path, *args, **kwargs);
  * every directory on the way to such a file is a sub-map;
  * nothing else is in the map: every handle in any layer belongs to such a file (or
    was there before), every sub-map to a directory on the way to / under a rule dir;
  * conflicts: with nest_on_conflict every older handle of the key is still in a deeper
    layer, without it exactly one handle is kept and it is one of the latest rule's;
  * a rule path that is a regular file -> ValueError; a missing one is skipped.

Not decided here (stated in DESIGN.md): which of two files of the SAME rule that get the
same key wins (listing order is the file system's); trees where a trimmed file key
equals a directory key are left out (precondition).
"""
import itertools
import json
import os
import shutil
import sys
import tempfile


def build_tree(root, entries):
    for e in entries:
        p = os.path.join(root, *e.rstrip('/').split('/'))
        if e.endswith('/'):
            os.makedirs(p, exist_ok=True)
        else:
            os.makedirs(os.path.dirname(p), exist_ok=True)
            with open(p, 'w') as f:
                f.write('x')


def walk_map(m, prefix=''):
    """-> (submaps {key: map}, handles [(key, layer, handle)])"""
    subs, hs = {}, []
    for k, sm in m.maps.items():
        key = prefix + k
        subs[key] = sm
        s2, h2 = walk_map(sm, key + '/')
        subs.update(s2)
        hs += h2
    for li, layer in enumerate(m.handles.maps):
        for k, h in layer.items():
            hs.append((prefix + k, li, h))
    return subs, hs


def run_case(case):
    import desper

    class RH(desper.Handle):
        def __init__(self, filename, *args, **kwargs):
            self.filename, self.args, self.kwargs = filename, args, kwargs

        def load(self):
            return self.filename

    facts = []
    for i in range(4):
        facts.append(type('RH%d' % i, (RH,), {}))

    class Old(desper.Handle):
        def load(self):
            return 'old'
    tmp = tempfile.mkdtemp(prefix='c16_')
    try:
        root = os.path.join(tmp, 'root')
        os.makedirs(root)
        build_tree(root, case['tree'])
        nest, trim = case['nest'], case['trim']
        mode = case.get('ctor_opts', True)
        if mode is True:
            pop = desper.DirectoryResourcePopulator(root, nest_on_conflict=nest, trim_extensions=trim)
            call_kw = {}
        elif mode == 'call-trim':    # only trim_extensions overridden per call
            pop = desper.DirectoryResourcePopulator(root, nest_on_conflict=nest, trim_extensions=not trim)
            call_kw = dict(trim_extensions=trim)
        elif mode == 'call-nest':    # only nest_on_conflict overridden per call
            pop = desper.DirectoryResourcePopulator(root, nest_on_conflict=not nest, trim_extensions=trim)
            call_kw = dict(nest_on_conflict=nest)
        else:
            pop = desper.DirectoryResourcePopulator(root, nest_on_conflict=not nest, trim_extensions=not trim)
            call_kw = dict(nest_on_conflict=nest, trim_extensions=trim)
        for i, r in enumerate(case['rules']):
            pop.add_rule(r['dir'], facts[i], *r.get('args', ()), file_exts=r.get('exts', ()),
                         **r.get('kwargs', {}))
        m = desper.ResourceMap()
        olds = {}
        for k in case.get('pre', ()):
            olds[k] = Old()
            m[k] = olds[k]
        subs_before = set(walk_map(m)[0])
        # expected error?
        bad = [r for r in case['rules'] if os.path.exists(os.path.join(root, r['dir']))
               and not os.path.isdir(os.path.join(root, r['dir']))]
        times = case.get('times', 1)
        try:
            for _ in range(times):
                pop(m, **call_kw)
        except ValueError:
            if bad:
                return None
            return ('raised ValueError although every rule path is a directory or missing', 'valueerror')
        except Exception as e:      # noqa
            if bad:
                return ('a rule path that is not a directory raised %s instead of ValueError'
                        % type(e).__name__, 'not-a-directory')
            return ('populating raised %r' % (e,), 'exception:' + type(e).__name__)
        if bad:
            return ('a rule path that is not a directory was accepted', 'not-a-directory')
        # ---- expected content
        exp = {}          # key -> list of (rule index, path) in rule order
        dirs_ok = set()   # keys of directories that may / must be sub-maps
        must_dirs = set()
        for i, r in enumerate(case['rules']):
            d = os.path.normpath(os.path.join(root, r['dir']))
            if not os.path.isdir(d):
                continue
            # ancestors of the rule dir and the rule dir itself
            rel = os.path.relpath(d, root)
            parts = [] if rel == '.' else rel.split(os.sep)
            for j in range(1, len(parts) + 1):
                dirs_ok.add('/'.join(parts[:j]))
            for dp, dns, fns in os.walk(d):
                relp = os.path.relpath(dp, root)
                pparts = [] if relp == '.' else relp.split(os.sep)
                if pparts:
                    dirs_ok.add('/'.join(pparts))
                for fn in fns:
                    ext = os.path.splitext(fn)[1]
                    if r.get('exts') and ext not in r['exts']:
                        continue
                    name = os.path.splitext(fn)[0] if trim else fn
                    key = '/'.join(pparts + [name])
                    exp.setdefault(key, []).append((i, os.path.join(dp, fn)))
                    for j in range(1, len(pparts) + 1):
                        must_dirs.add('/'.join(pparts[:j]))
        subs, hs = walk_map(m)
        hidden = any(part.startswith('.') for k in exp for part in k.split('/')) or \
            any(os.path.basename(p).startswith('.') for v in exp.values() for _, p in v)
        tag = ':dot-name' if hidden else ''

        def same_path(a, b):
            return os.path.normpath(os.path.abspath(a)) == os.path.normpath(os.path.abspath(b))

        def matches(h, i, path):
            r = case['rules'][i]
            return type(h) is facts[i] and same_path(h.filename, path) and \
                tuple(h.args) == tuple(r.get('args', ())) and dict(h.kwargs) == dict(r.get('kwargs', {}))
        for key, pairs in exp.items():
            top = m.get(key)
            if top is None or not isinstance(top, desper.Handle) or isinstance(top, desper.ResourceMap):
                return ('file %s is not reachable under key %r (got %r)' % (pairs[-1][1][len(root):], key, top),
                        'unreachable' + tag)
            last_rule = pairs[-1][0]
            cands = [p for p in pairs if p[0] == last_rule]
            if not any(matches(top, i, p) for i, p in cands):
                return ('key %r holds %r (%r, %r, %r): not the handle the latest rule builds for that file'
                        % (key, type(top).__name__, getattr(top, 'filename', None), getattr(top, 'args', None),
                           getattr(top, 'kwargs', None)), 'wrong-handle' + tag)
            here = [h for k, li, h in hs if k == key]
            if nest:
                # all older ones still retrievable beneath (one per expected pair and run, and the
                # handle that was there before)
                for i, p in pairs:
                    if not any(matches(h, i, p) for h in here):
                        return ('with nest_on_conflict the handle of %s (rule %d) for key %r is no longer '
                                'retrievable' % (p[len(root):], i, key), 'nest-lost' + tag)
                if key in olds and not any(h is olds[key] for h in here):
                    return ('with nest_on_conflict the handle stored before under %r is no longer retrievable'
                            % key, 'nest-lost-old' + tag)
                if times == 2 and len(here) < 2:
                    return ('second population with nest_on_conflict did not keep the first handle of %r' % key,
                            'nest-lost-repeat' + tag)
            else:
                if len(here) != 1:
                    return ('without nest_on_conflict key %r holds %d handles' % (key, len(here)),
                            'replace' + tag)
        for d in must_dirs:
            if d not in subs:
                return ('directory %r on the way to a file is not a sub-map' % d, 'dir-not-submap' + tag)
        for k, li, h in hs:
            if any(h is o for o in olds.values()):
                continue
            if k not in exp or not any(matches(h, i, p) for i, p in exp[k]):
                return ('the map holds a handle under %r (layer %d, %r) that corresponds to no accepted file'
                        % (k, li, getattr(h, 'filename', h)), 'extra-handle' + tag)
        for k in subs:
            if k not in dirs_ok and k not in subs_before:
                return ('the map holds a sub-map %r that corresponds to no directory of a rule' % k,
                        'extra-submap' + tag)
        return None
    finally:
        shutil.rmtree(tmp, ignore_errors=True)


POOL = ['res/a.txt', 'res/a.png', 'res/b', 'res/d/', 'res/d/a.txt', 'res/d/e.png', 'res/d/s/', 'res/d/s/f.txt',
        'res/x.y/', 'res/x.y/g.txt', 'res/c.txt', 'other/h.txt',
        # the extension text occurring earlier in the path / twice in the name
        'res/bak.txt/h.txt', 'res/k.txt.txt']
RULESETS = [
    [{'dir': 'res'}],
    [{'dir': 'res', 'exts': ['.txt'], 'args': [1, 'two'], 'kwargs': {'k': 3}}],
    [{'dir': 'res'}, {'dir': 'res/d', 'exts': ['.txt'], 'args': [7]}],
    [{'dir': 'missing'}, {'dir': 'res', 'exts': ['.png', '.txt']}],
    [{'dir': 'res/d'}, {'dir': 'other', 'kwargs': {'z': None}}],
    [{'dir': 'res/d/s', 'exts': ['.txt']}],
]


def precondition(tree, trim):
    """no file key equals a directory key"""
    dirs = set()
    files = set()
    for e in tree:
        parts = e.rstrip('/').split('/')
        upto = len(parts) if e.endswith('/') else len(parts) - 1
        for j in range(1, upto + 1):
            dirs.add('/'.join(parts[:j]))
        if not e.endswith('/'):
            name = os.path.splitext(parts[-1])[0] if trim else parts[-1]
            files.add('/'.join(parts[:-1] + [name]))
    return not (dirs & files)


def cases(tier):
    targeted = [
        {'tree': ['res/a.txt', 'notdir'], 'rules': [{'dir': 'res'}, {'dir': 'notdir'}], 'nest': True, 'trim': False},
        {'tree': ['res/a.txt'], 'rules': [{'dir': 'res/a.txt'}], 'nest': False, 'trim': True},
        {'tree': ['res/a.txt', 'res/a.png'], 'rules': [{'dir': 'res'}], 'nest': True, 'trim': True},
        {'tree': ['res/a.txt', 'res/a.png'], 'rules': [{'dir': 'res'}], 'nest': False, 'trim': True},
        {'tree': ['res/a.txt'], 'rules': [{'dir': 'res'}], 'nest': True, 'trim': False, 'pre': ['res/a.txt']},
        {'tree': ['res/a.txt'], 'rules': [{'dir': 'res'}], 'nest': False, 'trim': True, 'pre': ['res/a']},
        {'tree': ['res/d/s/f.txt', 'res/e/'], 'rules': [{'dir': 'res', 'exts': ['.txt']}], 'nest': True, 'trim': True,
         'times': 2},
        # dot names (glob skips them: known finding D24 when reproduced)
        {'tree': ['res/.hidden', 'res/a.txt'], 'rules': [{'dir': 'res'}], 'nest': True, 'trim': False},
        {'tree': ['res/.hid/f.txt'], 'rules': [{'dir': 'res'}], 'nest': True, 'trim': False},
    ]
    for c in targeted:
        yield c
    size = 3 if tier != 'thorough' else 4
    n = 0
    for k in range(1, size + 1):
        for tree in itertools.combinations(POOL, k):
            for rules in RULESETS:
                for nest, trim in itertools.product((True, False), repeat=2):
                    if not precondition(tree, trim):
                        continue
                    # options given at construction, per call (overriding the opposite value given
                    # at construction), or one of each: every mode for small trees, rotating
                    # independently of the option values for the larger ones
                    modes = (True, False, 'call-trim', 'call-nest')
                    for mode in (modes if k <= 2 else (modes[(n + n // 4) % 4],)):
                        n += 1
                        yield {'tree': list(tree), 'rules': rules, 'nest': nest, 'trim': trim,
                               'ctor_opts': mode, 'times': 1 + (n % 3 == 0),
                               'pre': ([t for t in tree if not t.endswith('/')][:1]
                                       if n % 5 == 0 and not trim else [])}


def main():
    req = json.loads(sys.stdin.read())
    skip = set(req.get('skip_signatures') or [])
    want = req.get('want_signature')
    if req['mode'] == 'replay' and req.get('history'):
        v = run_case(req['history'])
        print(json.dumps({'status': 'reproduced' if v else 'held', 'history': req['history'],
                          'observed': v and v[0], 'signature': v and 'C16:' + v[1]}, default=str))
        return
    if req['mode'] == 'replay':
        print(json.dumps({'status': 'no-witness'}))
        return
    tried = 0
    for case in cases(req.get('tier', 'quick')):
        tried += 1
        v = run_case(case)
        if v:
            sig = 'C16:' + v[1]
            if sig in skip or (want and sig != want):
                continue
            print(json.dumps({'status': 'reproduced', 'history': case, 'observed': v[0], 'violates': 'C16',
                              'found_by': 'native bounded search', 'signature': sig}, default=str))
            return
    print(json.dumps({'status': 'not-found', 'tried': tried}))


if __name__ == '__main__':
    main()
