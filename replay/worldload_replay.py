"""Native bounded stand-in / replay for C15 (runs under /venv/bin/python against /repo).

A description is written to a JSON file in a temporary directory (removed afterwards),
loaded through a WorldFromFileHandle that lives in a resource tree, and the loaded
world is compared with what the property statement says, written down here
independently of the code:

  * processors: the default ones (OnUpdateProcessor, CoroutineProcessor), then exactly
    the listed ones in order (all with the default priority);
  * every listed entity exists under its id (or a generated one) with exactly the listed
    components, each constructed exactly once with the resolved args / kwargs;
  * an argument that is a string of the form ${a.b} / $res{a.b} / $handle{a.b} is the
    named object / loaded resource / handle; anything else passes through unchanged
    (only top-level elements of args and values of kwargs are references);
  * nothing is delivered before dispatching is enabled, the world is returned disabled;
    after enabling every handler component has got on_add(entity, world) once and then
    on_world_load(handle, world) once.

The same is done for populate_world_from_dict on a dictionary with real types.
"""
import itertools
import json
import os
import shutil
import sys
import tempfile

MOD = '''
import desper
LOG = []
BUILT = []
CONST_INT = 5
CONST_STR = 'plain'
CONST_REF = '$res{r.x}'
CONST_LIST = [1, 2]
CONST_ZERO = 0
CONST_EMPTY = ()
CONST_NONE = None
CONST_BLANK = ''
CONST_FALSE = False


class Rec:
    def __init__(self, *args, **kwargs):
        self.args, self.kwargs = args, kwargs
        BUILT.append(self)


@desper.event_handler('on_add', 'on_world_load')
class CompA(Rec):
    def on_add(self, entity, world):
        LOG.append(('on_add', self, entity, world))

    def on_world_load(self, handle, world):
        LOG.append(('on_world_load', self, handle, world))


class CompB(Rec):
    pass


@desper.event_handler('on_world_load')
class CompC(Rec):
    def on_world_load(self, handle, world):
        LOG.append(('on_world_load', self, handle, world))


class ProcA(Rec, desper.Processor):
    def process(self, dt):
        pass


class ProcB(Rec, desper.Processor):
    def process(self, dt):
        pass
'''

MARKS = (('${', 'obj'), ('$res{', 'res'), ('$handle{', 'handle'))


def expected_arg(v, mod, root):
    """The statement's mapping of one argument value."""
    if isinstance(v, str):
        for m, kind in MARKS:
            if v.startswith(m) and v.endswith('}'):
                name = v[len(m):-1]
                if kind == 'obj':
                    o = mod
                    for part in name.split('.')[1:]:
                        o = getattr(o, part)
                    return ('is', o)
                key = name.replace('.', '/')
                if kind == 'res':
                    return ('is', root[key])
                return ('is', root.get(key))
    return ('eq', v)


def same(exp, got):
    kind, v = exp
    if kind == 'is':
        return got is v
    return type(got) is type(v) and got == v


def run_case(case):
    import importlib
    tmp = tempfile.mkdtemp(prefix='c15_')
    sys.path.insert(0, tmp)
    modname = 'c15mod_%d' % (abs(hash(tmp)) % 10 ** 8)
    try:
        with open(os.path.join(tmp, modname + '.py'), 'w') as f:
            f.write(MOD)
        mod = importlib.import_module(modname)
        import desper

        class Res(desper.Handle):
            def __init__(self, v):
                self.v = v

            def load(self):
                return ['resource', self.v]
        root = desper.ResourceMap()
        root['r/x'] = Res('x')
        root['top'] = Res('top')
        desc = json.loads(json.dumps(case['desc']).replace('MOD.', modname + '.'))
        via = case.get('via', 'file')
        if via == 'file':
            fn = os.path.join(tmp, 'w.json')
            with open(fn, 'w') as f:
                json.dump(desc, f)
            handle = desper.WorldFromFileHandle(fn)
            root['worlds/w'] = handle
            try:
                world = handle.load()
            except Exception as e:      # noqa
                return ('loading raised %r' % (e,), 'exception:' + type(e).__name__)
            defaults = [desper.OnUpdateProcessor, desper.CoroutineProcessor]
        else:
            # dictionary with real types (what populate_world_from_dict documents)
            d2 = json.loads(json.dumps(desc))
            for pd in d2.get('processors', []) + [c for e in d2.get('entities', []) for c in e.get('components', [])]:
                pd['type'] = getattr(mod, pd['type'].split('.')[-1])
            world = desper.World()
            world.dispatch_enabled = False
            handle = None
            try:
                desper.populate_world_from_dict(world, d2)
            except Exception as e:      # noqa
                return ('populate_world_from_dict raised %r' % (e,), 'exception:' + type(e).__name__)
            defaults = []

        def resolve(v):
            return expected_arg(v, mod, root) if via == 'file' else ('eq', v)
        # ---- constructions, in description order
        listed = [(p, 'proc') for p in desc.get('processors', [])] + \
                 [(c, 'comp') for e in desc.get('entities', []) for c in e.get('components', [])]
        built = list(mod.BUILT)
        if len(built) != len(listed):
            return ('%d objects were constructed for %d listed processors/components' % (len(built), len(listed)),
                    'construction-count')
        for obj, (d, kind) in zip(built, listed):
            if type(obj).__name__ != d['type'].split('.')[-1]:
                return ('constructed a %s where %s is listed' % (type(obj).__name__, d['type']), 'construction-type')
            eargs = [resolve(a) for a in d.get('args', [])]
            if len(obj.args) != len(eargs) or not all(same(e, g) for e, g in zip(eargs, obj.args)):
                return ('%s built with args %r, the description says %r' % (d['type'], obj.args, d.get('args', [])),
                        'args' + case.get('tag', ''))
            ekw = {k: resolve(v) for k, v in d.get('kwargs', {}).items()}
            if set(obj.kwargs) != set(ekw) or not all(same(ekw[k], obj.kwargs[k]) for k in ekw):
                return ('%s built with kwargs %r, the description says %r' % (d['type'], obj.kwargs,
                                                                              d.get('kwargs', {})),
                        'kwargs' + case.get('tag', ''))
        # ---- processors
        procs = list(world.processors)
        np_ = len(desc.get('processors', []))
        if [type(p) for p in procs[:len(defaults)]] != defaults:
            return ('default processors are %r' % [type(p).__name__ for p in procs[:len(defaults)]], 'default-processors')
        if procs[len(defaults):] != built[:np_]:
            return ('processors of the world are %r, listed: %r' % (
                [type(p).__name__ for p in procs], [p['type'] for p in desc.get('processors', [])]), 'processors')
        # ---- entities
        k = np_
        seen_entities = set()
        for e in desc.get('entities', []):
            comps = built[k:k + len(e.get('components', []))]
            k += len(comps)
            if 'id' in e:
                ent = e['id']
                if not world.entity_exists(ent) and comps:
                    return ('entity %r does not exist' % (ent,), 'entity-id')
            else:
                if not comps:
                    continue
                owners = [en for en, c in world.get(type(comps[0])) if c is comps[0]]
                if len(owners) != 1:
                    return ('a listed component is attached to %d entities' % len(owners), 'attached')
                ent = owners[0]
            if not comps:
                continue
            if ent in seen_entities:
                return ('two listed entities share the identifier %r' % (ent,), 'entity-shared')
            seen_entities.add(ent)
            have = list(world.get_components(ent))
            if len(have) != len(comps) or any(not any(h is c for h in have) for c in comps):
                return ('entity %r has components %r, listed %r' % (
                    ent, [type(c).__name__ for c in have], [c['type'] for c in e['components']]), 'components')
        total = sum(len(world.get_components(en)) for en in world.entities)
        if total != len(built) - np_:
            return ('the world holds %d components, %d are listed' % (total, len(built) - np_), 'extra-components')
        # ---- events
        if world.dispatch_enabled is not False:
            return ('the world is returned with dispatching enabled', 'enabled')
        if mod.LOG:
            return ('callbacks ran before dispatching was enabled: %r' % [x[0] for x in mod.LOG], 'early-callback')
        world.dispatch_enabled = True
        for c in built[np_:]:
            mine = [x for x in mod.LOG if x[1] is c]
            names = [x[0] for x in mine]
            want = []
            if hasattr(c, 'on_add'):
                want.append('on_add')
            if via == 'file' and hasattr(c, 'on_world_load'):
                want.append('on_world_load')
            if names != want:
                return ('%s got %r after enabling, expected %r' % (type(c).__name__, names, want), 'callbacks')
            for x in mine:
                if x[0] == 'on_add' and (x[3] is not world or not any(
                        h is c for h in world.get_components(x[2]))):
                    return ('on_add delivered with the wrong entity/world', 'callback-args')
                if x[0] == 'on_world_load' and (x[2] is not handle or x[3] is not world):
                    return ('on_world_load delivered with %r, %r' % (x[2], x[3]), 'callback-args')
        return None
    finally:
        sys.path.remove(tmp)
        sys.modules.pop(modname, None)
        shutil.rmtree(tmp, ignore_errors=True)


ARGS = [1, 2.5, None, True, 'plain', '', '$', 'x${MOD.CONST_INT}', '${MOD.CONST_INT}', '${MOD.CONST_LIST}',
        '$res{r.x}', '$handle{r.x}', '$res{top}', '$handle{top}', [1, 'two', None], {'a': [1]}, 'res{r.x}',
        '$ {MOD.CONST_INT}', '${MOD.CompB}', '$handle{r}',
        # names of falsy objects are replaced by those objects all the same
        '${MOD.CONST_ZERO}', '${MOD.CONST_EMPTY}', '${MOD.CONST_NONE}', '${MOD.CONST_BLANK}', '${MOD.CONST_FALSE}']


def comp(t, args=None, kwargs=None):
    d = {'type': 'MOD.' + t}
    if args is not None:
        d['args'] = args
    if kwargs is not None:
        d['kwargs'] = kwargs
    return d


def cases(tier):
    # double substitution: ${name} naming a string that itself looks like a reference
    yield {'desc': {'entities': [{'components': [comp('CompB', ['${MOD.CONST_REF}'])]}]}, 'tag': ':renamed-reference'}
    yield {'desc': {}}
    yield {'desc': {'processors': [comp('ProcA')], 'entities': []}}
    yield {'desc': {'entities': [{'id': 'e', 'components': []}]}}
    # the same path through both reference forms inside one dictionary, in both orders
    both = [comp('CompB', ['$res{r.x}', '$handle{r.x}']), comp('CompB', ['$handle{r.x}', '$res{r.x}']),
            comp('CompA', ['$handle{top}'], {'k': '$res{top}'}), comp('CompA', ['$res{top}'], {'k': '$handle{top}'}),
            comp('CompC', None, {'a': '$res{r.x}', 'b': '$handle{r.x}', 'c': '$res{r.x}'}),
            comp('CompB', ['${MOD.CONST_INT}', '$res{top}', '${MOD.CONST_INT}', '$handle{top}', '$res{r.x}'])]
    for s in both:
        yield {'desc': {'entities': [{'components': [s]}]}}
        yield {'desc': {'processors': [dict(s, type='MOD.ProcB')]}}
    shapes = []
    for a in ARGS:
        shapes.append(comp('CompA', [a]))
        shapes.append(comp('CompB', None, {'k': a}))
        shapes.append(comp('CompC', [0, a], {'x': a, 'y': 1}))
    for s in shapes:
        yield {'desc': {'entities': [{'components': [s]}]}}
        yield {'desc': {'processors': [dict(s, type='MOD.ProcA')], 'entities': [{'id': 'named', 'components': [s]}]}}
    ents = [
        [comp('CompA', [1])], [comp('CompB'), comp('CompA', None, {'k': '$res{r.x}'})],
        [comp('CompC', ['${MOD.CONST_STR}']), comp('CompA'), comp('CompB', [[1, 2]])], [],
    ]
    ids = [None, 'str id', 1000, 'x']
    procsets = [[], [comp('ProcA', [1])], [comp('ProcB'), comp('ProcA', None, {'p': '$handle{top}'})],
                [comp('ProcA'), comp('ProcB', ['${MOD.CONST_INT}'])]]
    n = 0
    depth = 2 if tier != 'thorough' else 3
    for ps in procsets:
        for k in range(0, depth + 1):
            for combo in itertools.product(range(len(ents)), repeat=k):
                for idsel in itertools.product(range(len(ids)), repeat=k):
                    chosen = [ids[i] for i in idsel]
                    named = [c for c in chosen if c is not None]
                    if len(set(map(str, named))) != len(named):
                        continue
                    n += 1
                    es = []
                    for ci, idv in zip(combo, chosen):
                        e = {'components': ents[ci]}
                        if idv is not None:
                            e['id'] = idv
                        es.append(e)
                    yield {'desc': {'processors': ps, 'entities': es}, 'via': 'file' if n % 3 else 'dict'}


def main():
    req = json.loads(sys.stdin.read())
    skip = set(req.get('skip_signatures') or [])
    want = req.get('want_signature')
    if req['mode'] == 'replay' and req.get('history'):
        v = run_case(req['history'])
        print(json.dumps({'status': 'reproduced' if v else 'held', 'history': req['history'],
                          'observed': v and v[0], 'signature': v and 'C15:' + v[1]}, default=str))
        return
    if req['mode'] == 'replay':
        print(json.dumps({'status': 'no-witness'}))
        return
    tried = 0
    for case in cases(req.get('tier', 'quick')):
        tried += 1
        v = run_case(case)
        if v:
            sig = 'C15:' + v[1]
            if sig in skip or (want and sig != want):
                continue
            print(json.dumps({'status': 'reproduced', 'history': case, 'observed': v[0], 'violates': 'C15',
                              'found_by': 'native bounded search', 'signature': sig}, default=str))
            return
    print(json.dumps({'status': 'not-found', 'tried': tried}))


if __name__ == '__main__':
    main()
