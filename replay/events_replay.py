"""Native replay / witness search for the dispatcher properties C03, C04, C10
(runs under /venv/bin/python against /repo).

The verifier's counter-models for these classes are abstract (uninterpreted
handlers, references, argument packs); they are realised here through PUBLIC
operations only: a history is a list of operations on a real EventDispatcher
with scripted probe handlers, and the oracle is the property statement evaluated
on the recorded callback log.  `search` enumerates small histories exhaustively
(bounded); `replay` re-runs one recorded history.  Everything runs under a
watchdog: one known defect family makes `dispatch_enabled = True` never return.
"""
import gc
import itertools
import json
import signal
import sys


class Hang(Exception):
    pass


def _alarm(signum, frame):
    raise Hang()


class Boom(Exception):
    """Scripted exception raised from a callback (like Quit / SwitchWorld)."""


def make_handler_class(events):
    import desper

    @desper.event_handler(*events)
    class H:
        def __init__(self, name, log, scripts):
            self.name, self.log, self.scripts = name, log, scripts

    def make_cb(ev):
        def cb(self, *args, **kwargs):
            self_ok = self is not None
            name = self.name if self_ok else None
            log = self.log if self_ok else cb.fallback_log
            log.append(('call', name, ev, args, tuple(sorted(kwargs.items())), self_ok))
            if self_ok:
                for act in self.scripts.get((self.name, ev, sum(
                        1 for e in log if e[0] == 'call' and e[1] == name and e[2] == ev)), ()):
                    act()
        cb.fallback_log = None
        return cb
    for ev in events:
        setattr(H, ev, make_cb(ev))
    return H


def run_history(history, budget_s=5):
    """history: list of ops; returns observation dict (log, exceptions, hang)."""
    import desper
    signal.signal(signal.SIGALRM, _alarm)
    signal.alarm(budget_s)
    log = []
    obs = {'log': log, 'errors': [], 'hang': False, 'steps': []}
    d = desper.EventDispatcher()
    handlers = {}
    scripts = {}
    classes = {}
    cap = {'n': 0}

    def act(op):
        kind = op[0]
        if kind == 'new':
            _, name, events = op
            key = tuple(events)
            if key not in classes:
                classes[key] = make_handler_class(key)
                for ev in key:
                    getattr(classes[key], ev).fallback_log = log
            handlers[name] = classes[key](name, log, scripts)
        elif kind == 'add':
            d.add_handler(handlers[op[1]])
        elif kind == 'remove':
            d.remove_handler(handlers[op[1]])
        elif kind == 'drop':
            handlers.pop(op[1], None)
            gc.collect()
            log.append(('dropped', op[1]))
        elif kind == 'dispatch':
            log.append(('dispatch', op[1], tuple(op[2])))
            d.dispatch(op[1], *op[2])
        elif kind == 'enable':
            d.dispatch_enabled = True
        elif kind == 'disable':
            d.dispatch_enabled = False
        elif kind == 'clear':
            d.clear()
        elif kind == 'raise':
            raise Boom()
        elif kind == 'first_raises':
            # whichever listener runs first raises; if the dispatch goes on all the same, the
            # next one drops the program's last reference to the one that raised and probes
            # it with another event (symmetric: independent of the listener iteration order)
            if 'raiser' not in cap:
                cap['raiser'] = op[1]
                raise Boom()
            act(('drop', cap['raiser']))
            act(('dispatch', 'f', (9,)))
        elif kind == 'script':
            # ('script', handler, event, nth_call, [ops])
            _, h, ev, nth, ops = op
            scripts[(h, ev, nth)] = [lambda o=o: act(o) for o in ops]
        elif kind == 'is_handler':
            log.append(('is_handler', op[1], d.is_handler(handlers[op[1]])))
        else:
            raise ValueError(op)
    try:
        for op in history:
            cap['n'] += 1
            try:
                log.append(('op', tuple(op) if op[0] != 'script' else ('script',)))
                act(op)
            except Boom:
                log.append(('boom',))
            except Hang:
                raise
            except Exception as e:       # an exception the scripts did not ask for
                obs['errors'].append(repr(e))
                log.append(('error', type(e).__name__))
            if len(d._event_queue) > 10000:
                raise Hang()
    except Hang:
        obs['hang'] = True
    finally:
        signal.alarm(0)
    obs['queue_len'] = len(d._event_queue)
    obs['registered'] = sorted(n for n, h in handlers.items() if d.is_handler(h))
    return obs


# ------------------------------------------------------------------ oracles

def calls(obs):
    return [e for e in obs['log'] if e[0] == 'call']


def check_common(history, obs):
    """Statements that hold for every history (C10, C04 termination)."""
    if obs['hang']:
        return 'C04', 'enabling dispatch did not terminate'
    for e in calls(obs):
        if not e[5]:
            return 'C10', 'callback %s invoked with a missing (None) receiver' % (e[2],)
    if obs['errors']:
        return 'C10', 'unexpected exception from the dispatcher: %s' % obs['errors'][0]
    # a handler whose last program reference has been dropped is gone: it is never called again
    # (the dispatcher holds it weakly; T7: CPython finalises it at once)
    gone = set()
    for e in obs['log']:
        if e[0] == 'dropped':
            gone.add(e[1])
        elif e[0] == 'call' and e[1] in gone:
            return 'C10', ('handler %r was called after the program dropped its last reference to it '
                           '(the dispatcher kept it alive)' % (e[1],))
    return None


def expected_deliveries(history):
    """Reference semantics for histories WITHOUT mutation scripts other than
    raise/disable: returns the expected multiset/order of (handler, event, args)."""
    registered = {}
    order = []
    enabled = True
    queue = []
    expected = []
    known_events = set()
    defs = {}
    scripts = {}
    count = {}

    def deliver(ev, args):
        """-> 'ok' | 'boom'; one group of expected calls per delivery. A listener
        whose script raises ends the delivery: listeners after it (in the free set
        order) may or may not have been called, recorded as optional."""
        group = {'key': (ev, tuple(args)), 'must': [], 'may': []}
        expected.append(group)
        listeners = [h for h in order if h in registered and ev in defs[h]]
        raisers = []
        for h in listeners:
            count[(h, ev)] = count.get((h, ev), 0) + 1
            acts = scripts.get((h, ev, count[(h, ev)]), ())
            if any(o[0] == 'raise' for o in acts):
                raisers.append(h)
            for o in acts:
                if o[0] == 'disable':
                    nonlocal_enabled[0] = False
        if raisers:
            group['must'] = [raisers[0]]
            group['may'] = [h for h in listeners if h != raisers[0]]
            group['boom'] = True
            return 'boom'
        group['must'] = listeners
        return 'ok'
    nonlocal_enabled = [True]
    for op in history:
        k = op[0]
        if k == 'new':
            defs[op[1]] = set(op[2])
        elif k == 'add':
            if op[1] not in registered:
                order.append(op[1])
            registered[op[1]] = True
            known_events |= defs[op[1]]
        elif k == 'remove':
            registered.pop(op[1], None)
            if op[1] in order:
                order.remove(op[1])
        elif k == 'drop':
            registered.pop(op[1], None)
            if op[1] in order:
                order.remove(op[1])
        elif k == 'script':
            scripts[(op[1], op[2], op[3])] = op[4]
        elif k == 'disable':
            nonlocal_enabled[0] = False
        elif k == 'dispatch':
            if op[1] not in known_events:
                continue
            if nonlocal_enabled[0]:
                deliver(op[1], op[2])
            else:
                queue.append((op[1], op[2]))
        elif k == 'enable':
            nonlocal_enabled[0] = True
            while queue and nonlocal_enabled[0]:
                ev, args = queue.pop(0)
                if deliver(ev, args) == 'boom':
                    break
    return expected, queue


def check_reference(history, obs):
    """Exactly-once / order oracle for script-free (or raise/disable-only) histories.
    Within one event the listener order is free (set iteration), so deliveries are
    compared per (event occurrence) as multisets, and across events in order."""
    exp, pending = expected_deliveries(history)
    got = [(e[1], e[2], tuple(e[3])) for e in calls(obs)]
    pos = 0
    for g in exp:
        must = sorted(g['must'])
        seen = []
        while pos < len(got) and (got[pos][1], got[pos][2]) == g['key'] and \
                got[pos][0] not in seen and got[pos][0] in g['must'] + g['may'] and \
                len(seen) < len(g['must']) + len(g['may']):
            seen.append(got[pos][0])
            pos += 1
            if g.get('boom') and seen[-1] in g['must']:
                break
        if not set(must) <= set(seen):
            return 'delivery of %r: expected calls to %r, observed %r (full log %r)' % (
                g['key'], must, seen, got)
    if pos != len(got):
        return 'unexpected extra delivery %r (full log %r)' % (got[pos], got)
    if obs['queue_len'] != len(pending):
        return 'expected %d pending events, dispatcher holds %d' % (len(pending), obs['queue_len'])
    return None


# ------------------------------------------------------------- enumeration

def families(tier):
    """Small histories, grouped by what they exercise."""
    H2 = [('new', 'a', ['e', 'f']), ('new', 'b', ['e']), ('new', 'c', ['f'])]
    # C03: registration / removal / double registration / unknown events
    base_ops = [('add', 'a'), ('add', 'b'), ('add', 'c'), ('remove', 'a'), ('remove', 'b'),
                ('dispatch', 'e', (1,)), ('dispatch', 'f', (2, 3)), ('dispatch', 'zzz', ()),
                ('add', 'a')]
    n = 4 if tier != 'thorough' else 5
    for combo in itertools.product(base_ops, repeat=n):
        if not any(o[0] == 'dispatch' for o in combo):
            continue
        yield 'C03', H2 + list(combo)
    # C04: every short interleaving of registration, dispatch (known and unknown
    # names) and enable/disable
    ops4 = [('add', 'a'), ('add', 'c'), ('remove', 'a'), ('disable',), ('enable',),
            ('dispatch', 'e', (1,)), ('dispatch', 'f', (2,)), ('dispatch', 'zzz', ()),
            ('add', 'z')]
    HZ = H2 + [('new', 'z', ['zzz'])]
    for combo in itertools.product(ops4, repeat=n):
        if not any(o[0] == 'dispatch' for o in combo) or ('disable',) not in combo:
            continue
        yield 'C04', HZ + list(combo) + [('enable',)]
    # C04: defer / release, with a raise or a nested disable at every position
    for nq in (1, 2, 3):
        evs = [('dispatch', 'e', (i,)) for i in range(nq)]
        yield 'C04', H2 + [('add', 'a'), ('add', 'b'), ('disable',)] + evs + [('enable',), ('enable',)]
        for pos in range(1, nq + 1):
            for who in ('a', 'b'):
                for what in ('raise', 'disable'):
                    hist = H2 + [('add', 'a'), ('add', 'b'),
                                 ('script', who, 'e', pos, [(what,)]),
                                 ('disable',)] + evs + [('enable',), ('enable',), ('enable',)]
                    yield 'C04', hist
    # mixed events in order
    yield 'C04', H2 + [('add', 'a'), ('add', 'c'), ('disable',), ('dispatch', 'e', (1,)),
                       ('dispatch', 'f', (2,)), ('dispatch', 'e', (3,)), ('enable',)]
    # C04: listener turnover while events are pending - the last listener of a name leaves
    # (removed or collected) and another one arrives before dispatching is enabled again
    turn = [('remove', 'a'), ('remove', 'b'), ('remove', 'c'), ('drop', 'a'), ('drop', 'b'),
            ('add', 'a'), ('add', 'b'), ('add', 'c')]
    for start in (['a'], ['b'], ['a', 'b'], ['a', 'c'], ['b', 'c']):
        for k in (1, 2, 3):
            for combo in itertools.product(turn, repeat=k):
                dropped = set()
                ok = True
                for o in combo:
                    if o[0] == 'drop':
                        dropped.add(o[1])
                    elif o[1] in dropped:
                        ok = False
                if not ok:
                    continue
                yield 'C04', H2 + [('add', h) for h in start] + [
                    ('disable',), ('dispatch', 'e', (1,)), ('dispatch', 'f', (2,)), ('dispatch', 'e', (3,))] \
                    + list(combo) + [('enable',), ('dispatch', 'e', (4,))]
    # C10: a handler whose callback raised is not kept alive by the dispatcher either
    HF = [('new', 'a', ['e', 'f']), ('new', 'b', ['e', 'f'])]
    for extra in ((), (('disable',),)):
        yield 'C10', HF + [('add', 'a'), ('add', 'b'),
                           ('script', 'a', 'e', 1, [('first_raises', 'a')]),
                           ('script', 'b', 'e', 1, [('first_raises', 'b')])] + list(extra) + [
                           ('dispatch', 'e', (1,)), ('enable',), ('dispatch', 'f', (2,))]
    # C10: handlers dropped between operations and in the middle of a dispatch
    # ... after a callback of the same dispatch cleared the whole dispatcher
    for extra in ((), (('disable',),)):
        yield 'C10', H2 + [('add', 'a'), ('add', 'b'),
                           ('script', 'a', 'e', 1, [('clear',), ('drop', 'b')]),
                           ('script', 'b', 'e', 1, [('clear',), ('drop', 'a')])] + list(extra) + [
                           ('dispatch', 'e', (7,)), ('enable',), ('dispatch', 'e', (8,))]
    yield 'C10', H2 + [('add', 'a'), ('add', 'b'), ('drop', 'a'), ('dispatch', 'e', (1,)),
                       ('dispatch', 'f', (1,))]
    for first, second in (('a', 'b'), ('b', 'a')):
        # each of two listeners of `e` drops the other one when called: whatever the
        # set order, the second one disappears in the middle of the dispatch
        yield 'C10', H2 + [('add', 'a'), ('add', 'b'),
                           ('script', 'a', 'e', 1, [('drop', 'b')]),
                           ('script', 'b', 'e', 1, [('drop', 'a')]),
                           ('dispatch', 'e', (7,)), ('dispatch', 'e', (8,))]
    # ... also when the event was deferred and is released by enabling
    yield 'C10', H2 + [('add', 'a'), ('add', 'b'),
                       ('script', 'a', 'e', 1, [('drop', 'b')]),
                       ('script', 'b', 'e', 1, [('drop', 'a')]),
                       ('disable',), ('dispatch', 'e', (7,)), ('enable',), ('dispatch', 'e', (8,))]
    yield 'C10', H2 + [('add', 'a'), ('add', 'b'), ('script', 'a', 'e', 1, [('remove', 'b')]),
                       ('script', 'b', 'e', 1, [('remove', 'a')]), ('dispatch', 'e', (1,)),
                       ('dispatch', 'e', (2,))]


def decorator_scenarios(skip):
    """event_handler hierarchies: inherited mappings extended/overridden by the
    subclass, bases unaltered, nothing else called."""
    import desper
    out = []
    log = []

    def mk(name, bases, events=(), mappings=None, methods=('x', 'y', 'z', 'alt')):
        ns = {}
        for mname in methods:
            # the entry names the class whose function runs: the callback of an event is the
            # method the handler's OWN class resolves the mapped name to (an override wins)
            ns[mname] = (lambda mname: lambda self, *a: log.append(
                (type(self).__name__ if name == type(self).__name__
                 else '%s running the method of %s' % (type(self).__name__, name), mname, a)))(mname)
        cls = type(name, bases, ns)
        if events or mappings:
            cls = desper.event_handler(*events, **(mappings or {}))(cls)
        return cls
    for sub_events, sub_map in ((('y',), None), ((), {'y': 'alt'}), (('y',), {'x': 'alt'}), (('y', 'z'), None)):
        del log[:]
        Base = mk('Base', (), ('x',))
        before = dict(Base.__events__)
        Sub = mk('Sub', (Base,), sub_events, sub_map)
        Sib = mk('Sib', (Base,))
        if dict(Base.__events__) != before:
            out.append(('C03', 'decorating a subclass altered the base mapping: %r -> %r' % (before, dict(Base.__events__)), 'decorator-alters-base'))
            continue
        exp = dict(before)
        exp.update({e: e for e in sub_events})
        exp.update(sub_map or {})
        if dict(Sub.__events__) != exp:
            out.append(('C03', 'subclass mapping %r, expected %r' % (dict(Sub.__events__), exp), 'decorator-mapping'))
            continue
        d = desper.EventDispatcher()
        b, s2, sib = Base(), Sub(), Sib()
        for h in (b, s2, sib):
            d.add_handler(h)
        for ev in ('x', 'y', 'z'):
            d.dispatch(ev, 1)
        got = sorted(log)
        want = []
        for inst, mp in ((b, before), (s2, exp), (sib, before)):
            for ev in ('x', 'y', 'z'):
                if ev in mp:
                    want.append((type(inst).__name__, mp[ev], (1,)))
        if got != sorted(want):
            out.append(('C03', 'deliveries %r, expected %r' % (got, sorted(want)), 'decorator-delivery'))
    # an undecorated subclass that overrides a callback, registered after (and before) an
    # instance of its base, on one dispatcher and on a fresh one
    for order in ((0, 1), (1, 0)):
        del log[:]
        Base = mk('Base', (), ('x',))
        Over = mk('Over', (Base,), methods=('x',))
        insts = [Base(), Over()]
        d = desper.EventDispatcher()
        for i in order:
            d.add_handler(insts[i])
        d.dispatch('x', 1)
        d2 = desper.EventDispatcher()
        o2 = Over()
        d2.add_handler(o2)
        d2.dispatch('x', 2)
        want = sorted([('Base', 'x', (1,)), ('Over', 'x', (1,)), ('Over', 'x', (2,))])
        if sorted(log) != want:
            out.append(('C03', 'base and overriding undecorated subclass registered in order %r: deliveries %r, '
                               'expected %r' % (order, sorted(log), want), 'override-delivery'))
    # three levels: a middle class re-maps an inherited event, a further (decorated or not)
    # subclass keeps the nearer mapping; every combination of re-mapping / adding at each level
    for mid_map, low_events, low_map in (({'x': 'alt'}, ('y',), None), ({'x': 'alt'}, (), {'z': 'z'}),
                                         ({'x': 'alt', 'y': 'y'}, (), {'y': 'alt'}), ({'x': 'alt'}, (), None),
                                         ({'y': 'alt'}, ('z',), {'x': 'y'})):
        del log[:]
        Base = mk('Base', (), ('x',))
        Mid = mk('Mid', (Base,), (), mid_map)
        Low = mk('Low', (Mid,), low_events, low_map)
        exp_mid = dict(Base.__events__)
        exp_mid.update(mid_map)
        exp = dict(exp_mid)
        exp.update({e: e for e in low_events})
        exp.update(low_map or {})
        if dict(Base.__events__) != {'x': 'x'} or dict(Mid.__events__) != exp_mid:
            out.append(('C03', 'decorating a subclass altered a base mapping: Base %r, Mid %r'
                        % (dict(Base.__events__), dict(Mid.__events__)), 'decorator-alters-base'))
            continue
        if dict(Low.__events__) != exp:
            out.append(('C03', 'three-level hierarchy: mapping of the lowest class %r, expected %r (nearer '
                               'mappings override farther ones)' % (dict(Low.__events__), exp),
                        'decorator-mapping-3-levels'))
            continue
        d = desper.EventDispatcher()
        low = Low()
        d.add_handler(low)
        for ev in ('x', 'y', 'z'):
            d.dispatch(ev, 1)
        want = sorted(('Low', exp[ev], (1,)) for ev in ('x', 'y', 'z') if ev in exp)
        if sorted(log) != want:
            out.append(('C03', 'three-level hierarchy: deliveries %r, expected %r' % (sorted(log), want),
                        'decorator-delivery-3-levels'))
    # several handler bases (known finding D10)
    if 'C03:multi-base-inherit' not in skip:
        del log[:]
        A = mk('A', (), ('x',))
        B = mk('B', (), ('y',))
        C = mk('C', (A, B))
        d = desper.EventDispatcher()
        c = C()
        d.add_handler(c)
        d.dispatch('y', 1)
        if ('C', 'y', (1,)) not in log:
            out.append(('C03', "class C(A, B) of two handler bases: C.__events__ == %r, event 'y' mapped by B never reaches a registered C()" % (dict(C.__events__),), 'multi-base-inherit'))
    return out


def judge(fam, history, obs):
    r = check_common(history, obs)
    if r:
        return r
    mutating = any(o[0] == 'script' and any(a[0] not in ('raise', 'disable') for a in o[4])
                   for o in history)
    if not mutating:
        msg = check_reference(history, obs)
        if msg:
            return fam, msg
    return None


def main():
    req = json.loads(sys.stdin.read())
    pid = req.get('property')
    if req['mode'] == 'replay' and req.get('history'):
        hist = [tuple(o) if not isinstance(o, tuple) else o for o in req['history']['ops']]
        hist = [tuple(tuple(x) if isinstance(x, list) and i == 2 and o[0] in ('dispatch',) else x
                      for i, x in enumerate(o)) for o in hist]
        obs = run_history(hist)
        r = judge(pid, hist, obs)
        print(json.dumps({'status': 'reproduced' if r else 'held',
                          'history': {'ops': hist}, 'observed': r and r[1]}, default=str))
        return
    tried = 0
    skip = set(req.get('skip_signatures') or [])
    want = req.get('want_signature')
    if pid == 'C03' or want:
        for v in decorator_scenarios(skip if not want else set()):
            sig = '%s:%s' % (v[0], v[2])
            if sig in skip or (want and sig != want):
                continue
            print(json.dumps({'status': 'reproduced', 'history': {'scenario': 'event_handler class hierarchy'},
                              'observed': v[1], 'violates': v[0], 'found_by': 'native bounded search',
                              'signature': sig}))
            return
    if want:
        print(json.dumps({'status': 'not-found', 'tried': 0}))
        return
    for fam, hist in families(req.get('tier', 'quick')):
        if pid and fam != pid and not (pid == 'C04' and fam == 'C10') and not (
                pid == 'C10' and fam in ('C03',) and False):
            continue
        tried += 1
        obs = run_history(hist)
        r = judge(fam, hist, obs)
        if r and (r[0] == pid or pid is None or fam == pid):
            print(json.dumps({'status': 'reproduced', 'history': {'ops': hist}, 'observed': r[1],
                              'violates': r[0], 'found_by': 'native bounded search',
                              'signature': '%s:%s' % (r[0], r[1][:60])}, default=str))
            return
    print(json.dumps({'status': 'not-found', 'tried': tried}))


if __name__ == '__main__':
    main()
