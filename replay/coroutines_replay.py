"""Native replay / bounded search for C08 and C09 (runs under /venv/bin/python
against /repo).

Coroutines are scripted generators: a list of steps, each ('yield', value) with an
optional action performed just before yielding (start / kill another coroutine or
itself), ending with a return value.  A history mixes start / kill / state /
process(dt) calls from outside.  The oracle is a reference scheduler written from
the property statements: one step per frame for every runnable coroutine, in the
order they became runnable; a positive wait n resumes in the first frame by which
the accumulated dt reaches n (woken coroutines run after the ones that stayed
runnable); kill/finish terminate at once; ValueError/TypeError exactly as stated.
"""
import itertools
import json
import sys
from fractions import Fraction as F


def make_gen(name, script, env):
    """script: list of (wait_value, action) ; action in None | ('start', other) |
    ('kill', other)."""
    def body():
        for i, (wait, action) in enumerate(script):
            env['log'].append((name, i))
            if action is not None:
                env['act'](name, action)
            yield wait
        env['log'].append((name, 'end'))
        return RETURNS[name]
    return body()


# what each scripted coroutine returns: truthy, falsy and None values (the promise must hold
# exactly the returned object)
RETURNS = {'a': 'ret_a', 'b': 0, 'c': ''}


class Model:
    def __init__(self, scripts):
        self.scripts = scripts
        self.pos = {}            # name -> next step index (None = not created yet)
        self.runnable = []       # order in which they run
        self.waiting = {}        # name -> [needed, accumulated]
        self.done = set()
        self.killed = set()
        self.started_now = []
        self.exp = []
        self.pending = {}        # killed, not yet released by a reference implementation

    def running(self, n):
        return n in self.runnable or n in self.waiting or n in self.started_now

    def start(self, n):
        if self.running(n):
            return 'ValueError'
        self.started_now.append(n)
        self.killed.discard(n)
        # an exhausted generator started again ends at once, returning None
        self.exhausted = getattr(self, 'exhausted', set())
        if n in self.done:
            self.exhausted.add(n)
        return 'ok'

    def kill(self, n):
        if not self.running(n):
            return 'ValueError'
        for lst in (self.runnable, self.started_now):
            if n in lst:
                lst.remove(n)
        # released 'no later than the frame in which it would next have run'
        self.pending[n] = list(self.waiting[n][:2]) if n in self.waiting else [0, 0]
        self.waiting.pop(n, None)
        self.killed.add(n)
        return 'ok'

    def state(self, n):
        if n in self.waiting:
            return 1
        if n in self.runnable or n in self.started_now:
            return 2
        return 0

    def process(self, dt, obs=()):
        # `obs`: the names in the order the real processor ran them in this frame.  The property
        # fixes the relative order of the coroutines that STAY runnable only; where newly started
        # or woken ones are placed is not specified, so their places are taken from `obs`.
        for n in list(self.pending):
            self.pending[n][1] += dt
            if self.pending[n][1] >= self.pending[n][0]:
                del self.pending[n]
        stay = list(self.runnable)
        self.runnable += self.started_now
        self.started_now = []
        self.stayers = stay
        woken = []
        for n in list(self.waiting):
            self.waiting[n][1] += dt
        # the order among coroutines woken in the same frame is not specified: the frame is
        # compared up to that order and the model adopts the observed one (resync)
        due = [n for n in self.waiting if self.waiting[n][1] >= self.waiting[n][0]]
        for n in due:
            del self.waiting[n]
            woken.append(n)
        order = list(self.runnable) + woken
        obs = list(obs)
        new = [n for n in order if n not in stay]
        if new:
            # stable: stayers keep the model's order, newcomers go where they were observed
            def key(n):
                return obs.index(n) if n in obs else len(obs) + order.index(n)
            placed = sorted(order, key=key)
            if [n for n in placed if n in stay] == stay:
                order = placed
        self.runnable = order
        frame = []
        for n in list(order):
            if n not in self.runnable:
                continue            # killed earlier in this frame
            i = self.pos.get(n, 0)
            sc = self.scripts[n]
            if i >= len(sc):
                if n not in getattr(self, 'exhausted', set()):
                    frame.append((n, 'end'))
                self.runnable.remove(n)
                self.done.add(n)
                continue
            frame.append((n, i))
            self.pos[n] = i + 1
            wait, action = sc[i]
            if action is not None:
                kind, other = action
                if kind == 'start':
                    self.start(other)
                elif kind == 'kill':
                    self.kill(other)
            if n not in self.runnable:
                # killed itself: it would next have run after the wait it asks for now
                if n in self.pending and wait is not None and wait > 0:
                    self.pending[n] = [wait, 0]
                continue
            if wait is not None and wait > 0:
                self.runnable.remove(n)
                self.waiting[n] = [wait, 0]
        return frame, set(woken)

    def resync(self, got, woken):
        seen = [x[0] for x in got if x[0] in woken]
        slots = [i for i, n in enumerate(self.runnable) if n in woken]
        names = sorted((self.runnable[i] for i in slots), key=lambda n: seen.index(n) if n in seen else 99)
        for i, n in zip(slots, names):
            self.runnable[i] = n


def run_history(scripts, history):
    import desper
    env = {'log': []}
    cp = desper.CoroutineProcessor()
    gens = {}
    promises = {}

    def gen_of(n):
        if n not in gens:
            gens[n] = make_gen(n, scripts[n], env)
        return gens[n]

    flag = {'d15': False}
    m = Model(scripts)

    def act(me, action):
        kind, other = action
        try:
            if kind == 'start':
                if other in m.pending:
                    flag['d15'] = True
                promises[other] = cp.start(gen_of(other))
            elif kind == 'kill':
                cp.kill(gen_of(other))
        except ValueError:
            pass
    env['act'] = act

    def tag(v):
        # every symptom that follows a start() issued while a kill of the same generator was
        # pending is one finding (D15), whatever it looks like afterwards
        if v and flag['d15']:
            return ('C09', v[1] + ' [a generator was started again while its kill was still pending]',
                    'restart-with-pending-kill')
        return v
    v = _run(scripts, history, env, cp, gens, promises, gen_of, m, flag)
    return tag(v)


def _run(scripts, history, env, cp, gens, promises, gen_of, m, flag):
    for step, op in enumerate(history):
        kind = op[0]
        try:
            if kind in ('start', 'kill'):
                n = op[1]
                if kind == 'start' and n in m.pending:
                    flag['d15'] = True
                exp = getattr(m, kind)(n)
                try:
                    r = getattr(cp, kind)(gen_of(n))
                    got = 'ok'
                    if kind == 'start':
                        promises[n] = r
                except ValueError:
                    got = 'ValueError'
                if got != exp:
                    sig = 'restart-after-kill' if (kind == 'start' and n in m.killed | set()) else kind
                    return ('C09', '%s(%s) -> %s, expected %s' % (kind, n, got, exp), sig)
            elif kind == 'bad':
                for fn in (cp.start, cp.kill, cp.state):
                    try:
                        fn(42)
                        return ('C09', '%s(42) did not raise TypeError' % fn.__name__, 'typeerror')
                    except TypeError:
                        pass
            elif kind == 'process':
                before = len(env['log'])
                cp.process(op[1])
                got = env['log'][before:]
                expf, woken = m.process(op[1], [x[0] for x in got])
                # woken coroutines with equal deadlines may run in either order
                if got != expf and not same_up_to_ties(got, expf, woken):
                    return ('C08', 'frame %d (dt=%s): executed %r, expected %r' % (step, op[1], got, expf), 'frame')
                if got != expf:
                    m.resync(got, woken)
        except Exception as e:      # noqa
            return ('C09', 'operation %r raised %r' % (op, e), 'exception:%s' % type(e).__name__)
        # states and promises
        for n in scripts:
            if n in gens:
                st = int(cp.state(gens[n]))
                if st != m.state(n):
                    return ('C09', 'state(%s) is %d, expected %d after %r' % (n, st, m.state(n), history[:step + 1]), 'state')
                if n in promises and int(promises[n].state) != st:
                    return ('C09', 'promise.state differs from processor.state', 'promise-state')
            if n in m.done and n in promises and n not in getattr(m, 'exhausted', set()) \
                    and (promises[n].value != RETURNS[n] or type(promises[n].value) is not type(RETURNS[n])):
                return ('C09', 'promise of %s holds %r, the coroutine returned %r'
                        % (n, promises[n].value, RETURNS[n]), 'promise-value')
        # released: nothing of a finished/killed coroutine is kept once the frame in which it would
        # next have run is over (m.pending: killed, that frame not reached yet)
        for n in (m.done | m.killed):
            if n in gens and not m.running(n):
                g = gens[n]
                if g in cp._generators and n not in m.pending:
                    return ('C09', 'finished/killed coroutine %s is still known to the processor' % n, 'released')
    return None


def same_up_to_ties(got, exp, woken):
    if sorted(map(repr, got)) != sorted(map(repr, exp)):
        return False
    g2 = [x for x in got if x[0] not in woken]
    e2 = [x for x in exp if x[0] not in woken]
    return g2 == e2


def families(pid, tier):
    W = [None, 0, -1, 1, 2, F(5, 2)]
    dts = [0, F(1, 2), 1, 2]
    script_sets = []
    for wa, wb in itertools.product(W, repeat=2):
        script_sets.append({'a': [(wa, None), (None, None)], 'b': [(wb, None), (1, None)],
                            'c': [(None, None)]})
    script_sets += [
        {'a': [(None, None), (None, ('kill', 'b')), (None, None)], 'b': [(None, None), (None, None), (None, None)],
         'c': [(None, ('kill', 'a')), (1, None), (None, None)]},
        {'a': [(1, None), (None, ('kill', 'b')), (None, None)], 'b': [(2, None), (None, None)],
         'c': [(None, ('start', 'b')), (None, None)]},
        {'a': [(None, ('start', 'c')), (None, None)], 'b': [(2, None), (None, None)], 'c': [(None, None), (1, None)]},
        {'a': [(None, ('kill', 'b')), (None, None)], 'b': [(None, None), (None, None)], 'c': [(1, ('kill', 'c'))]},
        {'a': [(None, ('kill', 'a'))], 'b': [(1, None)], 'c': [(None, ('kill', 'a')), (None, None)]},
        {'a': [(2, None), (None, None)], 'b': [(1, None), (1, None)], 'c': [(F(5, 2), None)]},
    ]
    # staggered waits: a coroutine starts waiting while another one is already waiting (the
    # shared timer is not zero then), with every dt sequence up to length 5
    stag = []
    for w1, w2, w3 in itertools.product([1, 2, 3, F(5, 2)], [1, 2, F(3, 2)], [None, 1, 2]):
        stag.append({'a': [(w1, None), (None, None), (w3, None), (None, None)],
                     'b': [(None, None), (w2, None), (None, None), (w2, None), (None, None)],
                     'c': [(None, None), (None, None), (w3, None), (None, None)]})
    for scripts in stag:
        for k in (3, 4, 5) if tier != 'thorough' else (3, 4, 5, 6):
            for combo in itertools.product([F(1, 2), 1, 2], repeat=k):
                yield scripts, [('start', 'a'), ('start', 'b'), ('start', 'c')] + \
                    [('process', d) for d in combo] + [('process', 1), ('process', 3)]
    # lifecycle of one coroutine next to a bystander: every sequence of start/kill/process up to
    # length 6 (7 in the thorough tier)
    for wa in (None, 1, 2):
        scripts = {'a': [(wa, None), (None, None), (wa, None), (None, None)], 'b': [(1, None), (None, None)],
                   'c': [(None, None)]}
        lops = [('start', 'a'), ('kill', 'a'), ('process', 1), ('process', 2), ('start', 'b')]
        for k in range(2, (7 if tier != 'thorough' else 8)):
            for combo in itertools.product(lops, repeat=k):
                if combo[0][0] != 'start':
                    continue
                yield scripts, list(combo) + [('process', 1), ('process', 1), ('process', 2)]
    ops = [('start', 'a'), ('start', 'b'), ('start', 'c'), ('kill', 'a'), ('kill', 'b'), ('bad',)] + \
          [('process', d) for d in dts]
    acting = [s for s in script_sets if any(st[1] is not None for sc in s.values() for st in sc)]
    plain = [s for s in script_sets if s not in acting]
    n = 4 if tier != 'thorough' else 5
    for group, depth in ((acting, n), (plain, n - 1)):
        for scripts in group:
            for k in range(2, depth + 1):
                for combo in itertools.product(ops, repeat=k):
                    if not any(o[0] == 'process' for o in combo):
                        continue
                    yield scripts, list(combo) + [('process', 1), ('process', 1), ('process', 2)]


def main():
    req = json.loads(sys.stdin.read())
    pid = req.get('property')
    skip = set(req.get('skip_signatures') or [])
    want = req.get('want_signature')
    if req['mode'] == 'replay' and req.get('history'):
        h = req['history']
        scripts = {k: [tuple(x) if not isinstance(x[1], list) else (x[0], tuple(x[1])) for x in v]
                   for k, v in h['scripts'].items()}
        hist = [tuple(o) for o in h['ops']]
        v = run_history(scripts, hist)
        print(json.dumps({'status': 'reproduced' if v else 'held', 'history': h, 'observed': v and v[1],
                          'signature': v and '%s:%s' % (v[0], v[2])}, default=str))
        return
    if req['mode'] == 'replay':
        print(json.dumps({'status': 'no-witness'}))
        return
    tried = 0
    cut = None       # set when the enumeration is cut at the cap of this tier
    targeted = [({'a': [(2, None), (None, None)], 'b': [(None, None)], 'c': [(None, None)]},
                 [('start', 'a'), ('process', 1), ('kill', 'a'), ('start', 'a'), ('process', 1),
                  ('process', 1), ('process', 1)])]
    for scripts, hist in itertools.chain(targeted, families(pid, req.get('tier', 'quick'))):
        tried += 1
        v = run_history(scripts, hist)
        if v:
            sig = '%s:%s' % (v[0], v[2])
            if sig in skip or (want and sig != want):
                continue
            print(json.dumps({'status': 'reproduced',
                              'history': {'scripts': {k: [list(x) for x in s] for k, s in scripts.items()},
                                          'ops': hist},
                              'observed': v[1], 'violates': v[0], 'found_by': 'native bounded search',
                              'signature': sig}, default=str))
            return
        if tried > (2500000 if req.get('tier') == 'thorough' else 200000):
            cut = tried
            break
    print(json.dumps({'status': 'not-found', 'tried': tried, 'truncated_at': cut}))


if __name__ == '__main__':
    main()
