"""Native replay / witness search for the World properties C01, C02, C05, C06, C07
(runs under /venv/bin/python against /repo).

A history is a list of PUBLIC World operations over a small universe (a diamond
of component classes, handler and non-handler components, three entity ids, three
processor classes).  The oracle is a reference model of the property statements:
the attachment map, the pending marks, the processor order and the expected
lifecycle callbacks; after every operation every query of the real World is
compared with the model.  `search` enumerates histories exhaustively up to a
bound; `replay` re-runs one recorded history.
"""
import itertools
import json
import signal
import sys


class Hang(Exception):
    pass


def _alarm(signum, frame):
    raise Hang()


def universe():
    import desper
    log = []

    class A:
        pass

    class B(A):
        pass

    class C(A):
        pass

    class D(B, C):
        pass

    @desper.event_handler('on_add', 'on_remove', 'ping')
    class H:
        def on_add(self, e, w):
            log.append(('on_add', id(self), e, id(w)))

        def on_remove(self, e, w):
            log.append(('on_remove', id(self), e, id(w)))

        def ping(self):
            log.append(('ping', id(self)))

    @desper.event_handler('ping')
    class G:            # handler without on_add / on_remove
        def ping(self):
            log.append(('ping', id(self)))

    class HB(H):        # subclass of a handler
        pass

    class Z(H):         # a handler component that is falsy (e.g. an empty inventory)
        def __bool__(self):
            return False

    class F:            # a plain falsy component with truthy and falsy subclasses
        def __bool__(self):
            return False

    class FB(F):
        def __bool__(self):
            return True

    class FC(F):
        pass

    import abc

    class V(abc.ABC):   # A is registered as a VIRTUAL subclass: not a subclass for the queries
        pass
    V.register(A)

    class P1(desper.Processor):
        priority = 0

        def process(self, dt):
            log.append(('proc', id(self), dt))

    class P2(desper.Processor):
        priority = 0

        def process(self, dt):
            log.append(('proc', id(self), dt))

    class P3(P1):
        priority = -1

    @desper.event_handler('on_add', 'on_remove')
    class PH(desper.Processor):
        def on_add(self):
            log.append(('p_on_add', id(self)))

        def on_remove(self):
            log.append(('p_on_remove', id(self)))

        def process(self, dt):
            log.append(('proc', id(self), dt))
    return dict(A=A, B=B, C=C, D=D, H=H, G=G, HB=HB, Z=Z, F=F, FB=FB, FC=FC, V=V, P1=P1, P2=P2, P3=P3, PH=PH), log


def real_sub(t, T):
    """t is T or a direct or indirect subclass of T (inheritance, not ABC registration)."""
    return T in t.__mro__


class Model:
    """Reference semantics of the properties."""

    def __init__(self, classes):
        self.k = classes
        self.att = {}            # (e, type) -> comp
        self.dead = set()
        self.procs = []          # execution order
        self.enabled = True
        self.pending = []        # postponed lifecycle callbacks, in operation order
        self.expected = []       # expected callback log entries

    def has_ev(self, c, ev):
        return ev in getattr(type(c), '__events__', {})

    def notify(self, ev, c, e, w):
        if not self.has_ev(c, ev):
            return
        entry = (ev, id(c), e, id(w))
        if self.enabled:
            self.expected.append(entry)
        else:
            self.pending.append(entry)

    def attach(self, e, c, w):
        t = type(c)
        if (e, t) in self.att:
            old = self.att.pop((e, t))
            self.notify('on_remove', old, e, w)
        self.att[(e, t)] = c
        self.notify('on_add', c, e, w)

    def detach(self, e, t, w):
        c = self.att.pop((e, t))
        self.notify('on_remove', c, e, w)
        if not any(k[0] == e for k in self.att):
            self.dead.discard(e)
        return c

    def match(self, e, T):
        if (e, T) in self.att:
            return T
        ms = [t for (e2, t) in self.att if e2 == e and real_sub(t, T)]
        return ms

    def enable(self, v):
        self.enabled = v
        if v:
            self.expected.extend(self.pending)
            self.pending = []


def run_history(history, budget_s=10):
    import desper
    signal.signal(signal.SIGALRM, _alarm)
    signal.alarm(budget_s)
    K, log = universe()
    m = Model(K)
    w = desper.World()
    objs = {}
    verdict = None
    trace = []
    try:
        for step, op in enumerate(history):
            kind = op[0]
            exc = None
            plog_start = len(log)
            try:
                if kind == 'create':
                    _, names, eid = op
                    comps = [objs.setdefault(n, K[n.split('#')[0]]()) for n in names]
                    if any(c is v for c in comps for v in m.att.values()):
                        # precondition of the properties (U1): an instance is attached at most once
                        break
                    r = w.create_entity(*comps, entity_id=eid)
                    if eid is None:
                        if any(k[0] == r for k in m.att):
                            verdict = ('C01', 'automatic id %r names an entity that already owns '
                                              'components' % (r,), 'auto-id')
                            break
                    else:
                        if r != eid:
                            verdict = ('C01', 'create_entity returned %r for entity_id=%r' % (r, eid), 'id')
                            break
                    for c in comps:
                        t = type(c)
                        if (r, t) in m.att and m.att[(r, t)] is not c:
                            old = m.att.pop((r, t))
                            m.notify('on_remove', old, r, w)
                            objs['create_replaced'] = True
                        m.att[(r, t)] = c
                    for c in comps:
                        if m.att.get((r, type(c))) is c or True:
                            m.notify('on_add', c, r, w)
                    objs['last_entity'] = r
                elif kind == 'add':
                    _, e, n = op
                    c = objs.setdefault(n, K[n.split('#')[0]]())
                    if any(c is v and k[0] != e for k, v in m.att.items()):
                        break       # U1: the instance is attached to another entity
                    w.add_component(e, c)
                    m.attach(e, c, w)
                elif kind == 'remove':
                    _, e, tn = op
                    T = K[tn]
                    r = w.remove_component(e, T)
                    cands = m.match(e, T)
                    if cands == T:
                        exp = m.detach(e, T, w)
                        if r is not exp:
                            verdict = ('C06', 'remove_component(%r, %s) returned %r, exact type expected' % (e, tn, r), 'remove-exact')
                            break
                    elif cands:
                        if r is None or type(r) not in cands or m.att.get((e, type(r))) is not r:
                            verdict = ('C06', 'remove_component(%r, %s) returned %r, not an attached subtype component' % (e, tn, r), 'remove-sub')
                            break
                        m.detach(e, type(r), w)
                    else:
                        if r is not None:
                            verdict = ('C06', 'remove_component(%r, %s) returned %r, nothing matches' % (e, tn, r), 'remove-none')
                            break
                elif kind == 'delete':
                    _, e, immediate = op
                    known = any(k[0] == e for k in m.att)
                    try:
                        w.delete_entity(e, immediate=immediate)
                        if immediate and not known:
                            verdict = ('C05', 'immediate deletion of unknown entity did not raise', 'del-unknown')
                            break
                    except KeyError:
                        if not immediate or known:
                            verdict = ('C05', 'delete_entity(%r, %r) raised KeyError' % (e, immediate), 'del-keyerror')
                            break
                        continue
                    if immediate:
                        for (e2, t) in [k for k in m.att if k[0] == e]:
                            m.detach(e2, t, w)
                        m.dead.discard(e)
                    else:
                        # the mark is pending either way; for an identifier that owns nothing now
                        # the property promises nothing about the next process() (it may raise once)
                        m.dead.add(e)
                        if not known:
                            objs.setdefault('never_existed', set()).add(e)
                elif kind == 'process':
                    never = objs.get('never_existed', set())
                    try:
                        w.process(op[1])
                        if never:
                            # tolerated either way by the property; marks are consumed
                            never.clear()
                    except KeyError:
                        if not never:
                            verdict = ('C05', 'process() raised KeyError although every deleted entity existed when it was deleted', 'process-keyerror')
                            break
                        # one mark of an identifier that owned nothing was consumed by the failure
                        gone = {e for e in never if e not in w._dead_entities}
                        never -= gone
                        m.dead -= gone
                        # the failed frame applied an unknown subset of the marks: resync
                        for e in list(m.dead):
                            if not any(k[0] == e for k in m.att if True) or not w._entities.get(e):
                                for (e2, t) in [k for k in m.att if k[0] == e]:
                                    m.detach(e2, t, w)
                                m.dead.discard(e)
                        continue
                    for e in sorted(m.dead, key=repr):
                        pass
                    dead = list(m.dead)
                    # on_remove order among entities is free: compare as multiset below
                    for e in dead:
                        for (e2, t) in [k for k in m.att if k[0] == e]:
                            m.detach(e2, t, w)
                    m.dead.clear()
                    procs_called = [x for x in log[plog_start:] if x[0] == 'proc']
                    exp_procs = [('proc', id(p), op[1]) for p in m.procs]
                    if procs_called != exp_procs:
                        verdict = ('C07', 'process(%r) ran processors %r, expected order %r' % (
                            op[1], [x[1] for x in procs_called], [x[1] for x in exp_procs]), 'proc-order')
                        break
                    first_proc = next((i for i, x in enumerate(log[plog_start:]) if x[0] == 'proc'), None)
                    last_rm = max([i for i, x in enumerate(log[plog_start:]) if x[0] == 'on_remove'] or [-1])
                    if first_proc is not None and last_rm > first_proc:
                        verdict = ('C05', 'a processor ran before the pending deletions were applied', 'delete-order')
                        break
                elif kind == 'clear':
                    w.clear()
                    for (e2, t) in list(m.att):
                        m.detach(e2, t, w)
                    for p in list(m.procs):
                        if 'on_remove' in getattr(type(p), '__events__', {}):
                            m.expected.append(('p_on_remove', id(p))) if m.enabled else None
                    m.procs = []
                    m.dead.clear()
                    m.pending = []
                    m.enabled = True
                elif kind == 'addproc':
                    _, n, prio = op
                    p = objs.setdefault(n, K[n.split('#')[0]]())
                    w.add_processor(p, prio)
                    for q in [q for q in m.procs if type(q) is type(p)]:
                        m.procs.remove(q)
                        if 'on_remove' in getattr(type(q), '__events__', {}):
                            (m.expected if m.enabled else m.pending).append(('p_on_remove', id(q)))
                    if prio is not None:
                        objs.setdefault('prio', {})[id(p)] = prio
                    pr = objs.get('prio', {}).get(id(p), type(p).priority)
                    objs.setdefault('prio', {})[id(p)] = pr
                    pos = len([q for q in m.procs if objs['prio'][id(q)] <= pr])
                    m.procs.insert(pos, p)
                    if 'on_add' in getattr(type(p), '__events__', {}):
                        (m.expected if m.enabled else m.pending).append(('p_on_add', id(p)))
                    if p.world is not w or p.priority != pr:
                        verdict = ('C07', 'added processor has world=%r priority=%r (expected %r)' % (p.world, p.priority, pr), 'proc-attrs')
                        break
                elif kind == 'rmproc':
                    T = K[op[1]]
                    r = w.remove_processor(T)
                    exact = [q for q in m.procs if type(q) is T]
                    sub = [q for q in m.procs if isinstance(q, T)]
                    if exact:
                        expq = exact[0]
                    elif sub:
                        expq = r if r in sub else sub[0]
                    else:
                        expq = None
                    if r is not expq:
                        verdict = ('C06', 'remove_processor(%s) returned %r' % (op[1], r), 'rmproc')
                        break
                    if expq is not None:
                        m.procs.remove(expq)
                        if 'on_remove' in getattr(type(expq), '__events__', {}):
                            (m.expected if m.enabled else m.pending).append(('p_on_remove', id(expq)))
                elif kind == 'enable':
                    w.dispatch_enabled = True
                    m.enable(True)
                elif kind == 'disable':
                    w.dispatch_enabled = False
                    m.enable(False)
                elif kind == 'ping':
                    before = len(log)
                    w.dispatch('ping')
                    if m.enabled:
                        got = sorted(x[1] for x in log[before:] if x[0] == 'ping')
                        exp = sorted(id(c) for c in m.att.values() if m.has_ev(c, 'ping'))
                        del log[before:]
                        if got != exp:
                            verdict = ('C02', 'a world event reached %d listeners, %d handler components are attached' % (len(got), len(exp)), 'ping')
                            break
                    else:
                        m.pending_ping = True
                        return {'verdict': None, 'skipped': 'ping while disabled'}
                else:
                    raise ValueError(op)
            except Hang:
                raise
            except Exception as ex:           # noqa
                exc = ex
                verdict = ('C01', 'operation %r raised %r' % (op, ex), 'exception')
                break
            v = compare(w, m, K, log)
            if v:
                if objs.get('create_replaced') and v[0] == 'C02':
                    v = (v[0], v[1] + ' [create_entity replaced an attached component of the same type]',
                         v[2] + ':create-replaces')
                verdict = v
                break
    except Hang:
        verdict = ('C05', 'operation did not terminate', 'hang')
    finally:
        signal.alarm(0)
    return {'verdict': verdict, 'steps': len(history)}


def compare(w, m, K, log):
    """Every query against the model (C01, C06), registration (C02), callbacks (C02)."""
    # `object` is the root of every hierarchy: a query by it means "every component"
    types = [K[n] for n in ('A', 'B', 'C', 'D', 'H', 'G', 'HB', 'Z', 'F', 'FB', 'FC', 'V')] + [object]
    ents = sorted({e for (e, t) in m.att}, key=repr)
    for T in types:
        try:
            got = w.get(T)
        except TypeError as ex:
            return ('C06', 'get(%s) raised %r' % (T.__name__, ex), 'query-by-object')
        exp = [(e, c) for (e, t), c in m.att.items() if real_sub(t, T)]
        if sorted(map(lambda p: (repr(p[0]), id(p[1])), got)) != sorted(map(lambda p: (repr(p[0]), id(p[1])), exp)):
            dup = len(got) != len(set((repr(a), id(b)) for a, b in got))
            return ('C06' if dup else 'C01', 'get(%s) lists %d pairs, %d components of that type or a subtype are attached%s'
                    % (T.__name__, len(got), len(exp), ' (a pair is listed twice)' if dup else ''), 'get')
    for e in ents + ['nobody']:
        row = {t: c for (e2, t), c in m.att.items() if e2 == e}
        if sorted(map(id, w.get_components(e))) != sorted(map(id, row.values())):
            return ('C01', 'get_components(%r) disagrees with the attached components' % (e,), 'get_components')
        for T in types:
            has = any(real_sub(t, T) for t in row)
            if w.has_component(e, T) != has:
                return ('C01', 'has_component(%r, %s) is %r' % (e, T.__name__, not has), 'has_component')
            gc = w.get_component(e, T)
            if T in row:
                if gc is not row[T]:
                    return ('C06', 'get_component(%r, %s) does not prefer the exact type' % (e, T.__name__), 'get_component-exact')
            elif has:
                if gc is None or not isinstance(gc, T) or row.get(type(gc)) is not gc:
                    return ('C01', 'get_component(%r, %s) returned a component that is not attached' % (e, T.__name__), 'get_component')
            elif gc is not None:
                return ('C01', 'get_component(%r, %s) found a component where none is attached' % (e, T.__name__), 'get_component-none')
        exists = bool(row) and e not in m.dead
        if w.entity_exists(e) != exists:
            return ('C05' if e in m.dead or w._dead_entities else 'C01', 'entity_exists(%r) is %r' % (e, not exists), 'entity_exists')
    living = sorted((e for e in ents if e not in m.dead), key=repr)
    if sorted(w.entities, key=repr) != living:
        return ('C01', 'entities is %r, expected %r' % (sorted(w.entities, key=repr), living), 'entities')
    if list(w.processors) != m.procs:
        return ('C07', 'processors order differs from priority/insertion order', 'processors')
    for p in m.procs:
        if w.get_processor(type(p)) is not p:
            return ('C07', 'get_processor(%s) is not the registered instance' % type(p).__name__, 'get_processor')
    # C02: registered exactly while attached
    attached_handlers = {id(c): c for c in m.att.values() if hasattr(c, '__events__')}
    for c in attached_handlers.values():
        if not w.is_handler(c):
            return ('C02', 'an attached handler component is not registered as a listener', 'reg-missing')
    for n, o in list(getattr(m, '_all', {}).items()):
        pass
    # callbacks: exact multiset and, per component, exact sequence
    got = [x for x in log if x[0] in ('on_add', 'on_remove', 'p_on_add', 'p_on_remove')]
    exp = list(m.expected)
    if sorted(map(repr, got)) != sorted(map(repr, exp)):
        return ('C02', 'lifecycle callbacks so far %r, expected %r' % (
            [(x[0],) + tuple(x[2:3]) for x in got], [(x[0],) + tuple(x[2:3]) for x in exp]), 'callbacks')
    for cid in {x[1] for x in got}:
        if [x for x in got if x[1] == cid] != [x for x in exp if x[1] == cid]:
            return ('C02', 'callbacks of one component arrived in the wrong order', 'callback-order')
    return None


def detached_still_registered(w, objs, m):
    for n, o in objs.items():
        if hasattr(o, '__events__') and not isinstance(o, set) and not isinstance(o, dict):
            pass
    return None


# ------------------------------------------------------------- enumeration

def families(pid, tier):
    n = 3 if tier != 'thorough' else 4
    comp_names = ['A', 'D', 'H', 'G', 'B', 'Z']
    base = []
    for cn in comp_names:
        base.append(('create', [cn], None))
        base.append(('add', 1, cn + '#2'))
        base.append(('remove', 1, cn))
    base += [('create', ['H', 'A'], None), ('create', ['H'], 1), ('create', ['A'], 1),
             ('create', ['H', 'H#2'], None),
             ('remove', 1, 'A'), ('delete', 1, False), ('delete', 1, True), ('delete', 2, False),
             ('process', 1), ('clear',), ('disable',), ('enable',), ('ping',),
             ('add', 2, 'H#3'), ('add', 1, 'D#4'), ('remove', 1, 'B'), ('remove', 1, 'C')]
    procs = [('addproc', 'P1', None), ('addproc', 'P2', None), ('addproc', 'P3', None),
             ('addproc', 'P1#2', 0), ('addproc', 'P2', -1), ('addproc', 'PH', 1), ('addproc', 'P2#2', 0),
             # the same instance again with another explicit priority (the class default included)
             ('addproc', 'P2', 0), ('addproc', 'P1', 3), ('addproc', 'P1', 0),
             ('rmproc', 'P1'), ('rmproc', 'P2'), ('process', 2), ('clear',), ('disable',), ('enable',)]
    if pid == 'C07':
        for k in range(1, n + 2):
            for combo in itertools.product(procs, repeat=k):
                yield list(combo)
        return
    if pid == 'C06':
        ops = [('create', ['D'], None), ('create', ['B', 'C'], None), ('add', 1, 'D#2'), ('add', 1, 'A'),
               ('remove', 1, 'A'), ('remove', 1, 'B'), ('remove', 1, 'D'), ('create', ['HB'], None),
               ('remove', 1, 'H'), ('addproc', 'P3', None), ('addproc', 'P1', None), ('rmproc', 'P1')]
        # falsy components: the exact type is still preferred and exactly one object goes
        fops = [('create', ['F', 'FB'], None), ('create', ['F', 'FC', 'FB'], None), ('create', ['FC'], None),
                ('remove', 1, 'F'), ('remove', 1, 'FB'), ('remove', 1, 'FC'), ('add', 1, 'F#2'), ('add', 1, 'FB#2')]
        for k in range(1, n + 1):
            for combo in itertools.product(fops, repeat=k):
                yield list(combo)
        for k in range(1, n + 2):
            for combo in itertools.product(ops, repeat=k):
                yield list(combo)
        return
    if pid == 'C05':
        ops = [('create', ['A', 'H'], None), ('create', ['B'], None), ('delete', 1, False), ('delete', 1, True),
               ('delete', 2, False), ('remove', 1, 'A'), ('remove', 1, 'H'), ('process', 1), ('add', 1, 'A#9'),
               ('create', ['A'], 1), ('clear',), ('addproc', 'P1', None), ('disable',), ('enable',)]
        for k in range(1, n + 3):
            for combo in itertools.product(ops, repeat=k):
                yield list(combo)
        return
    for k in range(1, n + 1):
        for combo in itertools.product(base, repeat=k):
            yield list(combo)


def window_family(pid):
    """C02: everything that can happen to a handler component inside ONE window in which
    dispatching is disabled (attached and detached again, replaced, its entity deleted,
    re-attached): each postponed callback is delivered once, in order, on enabling.
    Enumerated in full on every run (not subject to the cap of the main enumeration)."""
    if pid != 'C02':
        return
    win = [('create', ['H'], None), ('create', ['H', 'A'], None), ('add', 1, 'H#2'), ('add', 1, 'H#3'),
           ('remove', 1, 'H'), ('delete', 1, True), ('delete', 1, False), ('process', 1),
           ('create', ['H#4'], 1), ('clear',)]
    for prefix in ([], [('create', ['H'], None)], [('create', ['A'], None)]):
        for k in range(1, 4):
            for combo in itertools.product(win, repeat=k):
                yield prefix + [('disable',)] + list(combo) + [('enable',), ('ping',)]


KNOWN_SIGNATURES = {
    'auto-id': 'D02',
}


def equality_scenarios():
    """Components and processors whose classes define == by value (dataclass-like): queries,
    removals and the execution order go by identity and type, never by equality."""
    import desper
    out = []
    ran = []

    class System(desper.Processor):
        def __init__(self, tag):
            self.tag = tag

        def __eq__(self, other):
            return isinstance(other, System) and other.tag == self.tag

        def __hash__(self):
            return hash(self.tag)

        def process(self, dt):
            ran.append(self)

    class Physics(System):
        pass

    class Render(System):
        priority = 5

    class Debug(Render):
        priority = 7

    def ids(seq):
        return [id(x) for x in seq]
    for removed_name in ('Physics', 'Render', 'Debug'):
        w = desper.World()
        ps = {'Physics': Physics('main'), 'Render': Render('main'), 'Debug': Debug('main')}
        for p_ in ps.values():
            w.add_processor(p_)
        T = {'Physics': Physics, 'Render': Render, 'Debug': Debug}[removed_name]
        r = w.remove_processor(T)
        left = [p_ for n_, p_ in ps.items() if n_ != removed_name]
        if r is not ps[removed_name]:
            out.append(('C06', 'remove_processor(%s) returned %r' % (removed_name, r), 'eq-rmproc-result'))
        if ids(w.processors) != ids(left):
            out.append(('C06', 'three processors that compare equal; after remove_processor(%s) the world '
                               'runs %r, expected %r' % (removed_name, [type(x).__name__ for x in w.processors],
                                                         [type(x).__name__ for x in left]), 'eq-rmproc'))
        del ran[:]
        w.process(1)
        if ids(ran) != ids(left):
            out.append(('C07', 'after remove_processor(%s) process() ran %r' % (
                removed_name, [type(x).__name__ for x in ran]), 'eq-process'))
        for n_, p_ in ps.items():
            if n_ != removed_name and w.get_processor(type(p_)) is not p_:
                out.append(('C06', 'get_processor(%s) does not return the registered instance' % n_, 'eq-getproc'))
    # re-adding: a new instance of a type replaces the old one, the equal ones of other types stay
    w = desper.World()
    a, b, b2 = Physics('x'), Render('x'), Render('x')
    for p_ in (a, b, b2):
        w.add_processor(p_)
    if ids(w.processors) != ids([a, b2]):
        out.append(('C07', 'replacing a processor by an equal instance of its type: world runs %r'
                    % ([type(x).__name__ for x in w.processors],), 'eq-replace'))

    class Stat:
        def __init__(self, v):
            self.v = v

        def __eq__(self, other):
            return isinstance(other, Stat) and other.v == self.v

        def __hash__(self):
            return hash(self.v)

    class Health(Stat):
        pass

    class Mana(Stat):
        pass
    w = desper.World()
    h1, m1, h2 = Health(3), Mana(3), Health(3)
    e1 = w.create_entity(h1, m1)
    e2 = w.create_entity(h2)
    got = w.remove_component(e1, Mana)
    if got is not m1 or ids(w.get_components(e1)) != ids([h1]) or ids(w.get_components(e2)) != ids([h2]):
        out.append(('C06', 'components that compare equal: remove_component(e1, Mana) returned %r and left '
                           '%r / %r' % (got, w.get_components(e1), w.get_components(e2)), 'eq-rmcomp'))
    pairs = sorted((e, id(c)) for e, c in w.get(Stat))
    if pairs != sorted([(e1, id(h1)), (e2, id(h2))]):
        out.append(('C06', 'get(Stat) over components that compare equal reports %r' % (pairs,), 'eq-get'))
    if w.get_component(e2, Stat) is not h2 or w.get_component(e1, Health) is not h1:
        out.append(('C01', 'get_component returns an equal component of another entity', 'eq-getcomp'))
    w.add_component(e1, Health(3))
    if w.get_component(e2, Health) is not h2:
        out.append(('C01', 'replacing a component of one entity by an equal one touched another entity',
                    'eq-replace-comp'))
    return out


def callback_scenarios():
    """Deferred deletion with callbacks that act on the world (hand-written expectations
    from C05/C01/C02): linked components whose on_remove deletes the partner, components whose
    on_remove fails once."""
    import desper
    out = []

    @desper.event_handler('on_remove')
    class Link:
        def __init__(self, partner):
            self.partner, self.removed = partner, 0

        def on_remove(self, entity, world):
            self.removed += 1
            try:
                world.delete_entity(self.partner, immediate=True)
            except KeyError:
                pass

    class Plain:
        pass
    for n_links, extra in ((2, False), (3, False), (2, True)):
        w = desper.World()
        names = ['e%d' % i for i in range(n_links)]
        links = [Link(names[(i + 1) % n_links]) for i in range(n_links)]
        for nm, lk in zip(names, links):
            w.create_entity(*([lk, Plain()] if extra else [lk]), entity_id=nm)
        bystander = w.create_entity(Plain())
        for nm in names:
            w.delete_entity(nm)
        for frame in range(3):
            try:
                w.process(1)
            except Exception as e:      # noqa
                out.append(('C05', 'process() raised %r in frame %d although every deleted entity existed when '
                                   'delete_entity was called (linked components delete their partner in on_remove)'
                            % (e, frame), 'process-keyerror-linked'))
                break
        else:
            if any(w.entity_exists(nm) or w.get_components(nm) if nm in w._entities else False for nm in names):
                out.append(('C05', 'a deleted entity still exists after three frames', 'linked-survives'))
            if [lk.removed for lk in links] != [1] * n_links:
                out.append(('C02', 'on_remove delivered %r times to the linked components'
                            % [lk.removed for lk in links], 'linked-on_remove-count'))
            if not w.entity_exists(bystander):
                out.append(('C01', 'an unrelated entity disappeared', 'linked-bystander'))
        if out:
            return out

    # on_remove failing once per component: the failed frame does not cancel the other deletions
    @desper.event_handler('on_remove')
    class Fragile:
        def __init__(self):
            self.calls = 0

        def on_remove(self, entity, world):
            self.calls += 1
            if self.calls == 1:
                raise RuntimeError('on_remove failed for entity %r' % (entity,))
    w = desper.World()
    ents = [w.create_entity(Fragile()) for _ in range(3)]
    keep = w.create_entity(Plain())
    for e in ents:
        w.delete_entity(e)
    failures = 0
    for frame in range(6):
        try:
            w.process(1)
        except RuntimeError:
            failures += 1
        except Exception as e:      # noqa
            out.append(('C05', 'process() raised %r' % (e,), 'process-other-error'))
            return out
        listed = [e for e in ents if e in w.entities or w.entity_exists(e)]
        if listed:
            out.append(('C05', 'after a frame that failed in an on_remove callback the entities %r, whose '
                               'deferred deletion was still pending, exist again (entities=%r)'
                        % (listed, w.entities), 'marks-lost-on-failure'))
            return out
    if any(e in w._entities for e in ents):
        out.append(('C05', 'entities scheduled for deletion survive six frames', 'never-deleted'))
    if not w.entity_exists(keep):
        out.append(('C01', 'an unrelated entity disappeared', 'fragile-bystander'))
    # replacing the only component of an entity awaiting deletion while its on_remove fails:
    # whatever is left, the next frames do not fail on a mark of an entity that is gone
    @desper.event_handler('on_remove')
    class Brittle:
        def on_remove(self, entity, world):
            raise RuntimeError('on_remove failed')
    w2 = desper.World()
    e2 = w2.create_entity(Brittle())
    w2.delete_entity(e2)
    try:
        w2.add_component(e2, Brittle())
    except RuntimeError:
        pass
    for frame in range(3):
        try:
            w2.process(1)
        except RuntimeError:
            pass
        except KeyError as ex:
            out.append(('C05', 'process() raised KeyError(%s) in frame %d: a failed add_component left a '
                               'deletion mark for an entity that no longer exists' % (ex, frame),
                        'mark-of-a-vanished-entity'))
            break
    return out


def main():
    req = json.loads(sys.stdin.read())
    pid = req.get('property')
    ob = req.get('obligation') or {}
    if req['mode'] == 'replay' and req.get('history'):
        hist = [tuple(tuple(x) if isinstance(x, list) and i != 1 else x for i, x in enumerate(o))
                for o in req['history']['ops']]
        hist = [(o[0], list(o[1]), o[2]) if o[0] == 'create' else tuple(o) for o in hist]
        r = run_history(hist)
        v = r['verdict']
        print(json.dumps({'status': 'reproduced' if v else 'held', 'history': {'ops': hist},
                          'observed': v and v[1], 'violates': v and v[0],
                          'signature': v and '%s:%s' % (v[0], v[2])}, default=str))
        return
    if req['mode'] == 'replay':
        print(json.dumps({'status': 'no-witness',
                          'detail': 'abstract counter-model: realised by the bounded search'}))
        return
    want = req.get('want_signature')
    tried = 0
    cut = None       # set when the enumeration is cut at the cap of this tier
    skip = set(req.get('skip_signatures') or [])
    # targeted histories for the known shapes first
    targeted = [
        [('create', ['A'], 1), ('create', ['A#2'], None)],
        [('create', ['H'], 7), ('create', ['H#2'], 7), ('ping',)],
        [('create', ['H', 'H#2'], None), ('ping',)],
    ]
    if pid in ('C01', 'C02', 'C05'):
        for v in callback_scenarios():
            sig = '%s:%s' % (v[0], v[2])
            if sig in skip or (want and sig != want):
                continue
            print(json.dumps({'status': 'reproduced', 'history': {'scenario': 'callback_scenarios'},
                              'observed': v[1], 'violates': v[0], 'found_by': 'native scenario',
                              'signature': sig}, default=str))
            return
    if pid in ('C01', 'C06', 'C07'):
        for v in equality_scenarios():
            sig = '%s:%s' % (v[0], v[2])
            if sig in skip or (want and sig != want):
                continue
            print(json.dumps({'status': 'reproduced', 'history': {'scenario': 'equality_scenarios'},
                              'observed': v[1], 'violates': v[0], 'found_by': 'native scenario',
                              'signature': sig}, default=str))
            return
    uncapped = len(targeted) + sum(1 for _ in window_family(pid))
    for hist in itertools.chain(targeted, window_family(pid), families(pid, req.get('tier', 'quick'))):
        tried += 1
        r = run_history(hist)
        v = r['verdict']
        if v:
            sig = '%s:%s' % (v[0], v[2])
            if sig in skip:
                continue
            if want and sig != want:
                continue
            print(json.dumps({'status': 'reproduced', 'history': {'ops': hist}, 'observed': v[1],
                              'violates': v[0], 'found_by': 'native bounded search',
                              'signature': sig}, default=str))
            return
        if tried - uncapped > (60000 if req.get('tier') == 'thorough' else 12000):
            cut = tried
            break
    print(json.dumps({'status': 'not-found', 'tried': tried, 'truncated_at': cut}))


if __name__ == '__main__':
    main()
