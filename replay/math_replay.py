"""Native replay / witness search for C18 (runs under /venv/bin/python against
/repo).  The oracle is the contract clause itself, evaluated by Python's own
`eval` on the values the real function returned, with textbook helper functions
re-implemented natively and exact rational arithmetic where possible (models of
polynomial obligations are rational and replay exactly); operations that go
through math.sqrt/cos/sin are compared with a relative tolerance of 1e-9.
"""
import importlib
import itertools
import json
import math
import random
import sys
import warnings
from fractions import Fraction

TOL = 1e-9


class Q:
    """Number with exact comparison for rationals and tolerant comparison once a
    float is involved."""
    __slots__ = ('v',)

    def __init__(self, v):
        self.v = v.v if isinstance(v, Q) else v

    @staticmethod
    def _u(x):
        return x.v if isinstance(x, Q) else x

    def _cmp(self, o):
        a, b = self.v, Q._u(o)
        if isinstance(a, float) or isinstance(b, float):
            a, b = float(a), float(b)
            if abs(a - b) <= TOL * max(1.0, abs(a), abs(b)):
                return 0
            return -1 if a < b else 1
        return (a > b) - (a < b)

    def __eq__(self, o): return self._cmp(o) == 0
    def __ne__(self, o): return self._cmp(o) != 0
    def __lt__(self, o): return self._cmp(o) < 0
    def __le__(self, o): return self._cmp(o) <= 0
    def __gt__(self, o): return self._cmp(o) > 0
    def __ge__(self, o): return self._cmp(o) >= 0
    def __hash__(self): return hash(self.v)
    def __add__(self, o): return Q(self.v + Q._u(o))
    __radd__ = __add__
    def __sub__(self, o): return Q(self.v - Q._u(o))
    def __rsub__(self, o): return Q(Q._u(o) - self.v)
    def __mul__(self, o): return Q(self.v * Q._u(o))
    __rmul__ = __mul__
    def __truediv__(self, o): return Q(self.v / Q._u(o))
    def __rtruediv__(self, o): return Q(Q._u(o) / self.v)
    def __neg__(self): return Q(-self.v)
    def __repr__(self): return 'Q(%r)' % (self.v,)
    def __bool__(self): return self.v != 0


class QT(tuple):
    """Tuple of Q remembering the type of the real object it mirrors."""
    orig_type = tuple


def wrap(x):
    if isinstance(x, Q):
        return x
    if isinstance(x, tuple):
        t = QT(wrap(i) for i in x)
        t.orig_type = type(x)
        return t
    if isinstance(x, list):
        return [wrap(i) for i in x]
    if isinstance(x, (int, float, Fraction)) and not isinstance(x, bool):
        return Q(x)
    return x


def parse_num(s):
    if isinstance(s, (int, float)):
        return Fraction(s)
    if isinstance(s, str):
        if s.startswith('approx:'):
            return float(s[7:])
        if '/' in s:
            a, b = s.split('/')
            return Fraction(int(a), int(b))
        try:
            return Fraction(int(s))
        except ValueError:
            return Fraction(s)
    raise ValueError(s)


def build_value(w):
    import desper.math as dm
    if isinstance(w, dict) and 'items' in w:
        items = [parse_num(i) for i in w['items']]
        cls = w.get('cls')
        if cls:
            c = getattr(dm, cls.split('.')[-1])
            return c(*items) if cls.split('.')[-1].startswith('Vec') else c(tuple(items))
        return tuple(items)
    if isinstance(w, dict) and 'con' in w:
        return eval(w['con'])
    if isinstance(w, dict) and 'class' in w:
        return getattr(dm, w['class'].split('.')[-1])
    return parse_num(w)


def helpers(state):
    def sq(v): return sum((x * x for x in v), Q(0))
    def dotp(a, b): return sum((x * y for x, y in zip(a, b)), Q(0))

    def parallel(a, b):
        n = len(a)
        return all(a[i] * b[j] == a[j] * b[i] for i in range(n) for j in range(i + 1, n))

    def mm(a, b, n):
        return wrap(tuple(sum((a[n * i + k] * b[n * k + j] for k in range(n)), Q(0))
                          for i in range(n) for j in range(n)))

    def vm(v, a, n):
        v = wrap(tuple(v))
        return wrap(tuple(sum((v[k] * a[n * k + j] for k in range(n)), Q(0)) for j in range(n)))

    def ident(n): return wrap(tuple(1 if i == j else 0 for i in range(n) for j in range(n)))

    def det(a, n):
        total = Q(0)
        for perm in itertools.permutations(range(n)):
            inv = sum(1 for i in range(n) for j in range(i + 1, n) if perm[i] > perm[j])
            term = Q(-1 if inv % 2 else 1)
            for i in range(n):
                term = term * a[n * i + perm[i]]
            total = total + term
        return total

    def same(a, b):
        a, b = wrap(tuple(a)), wrap(tuple(b))
        return len(a) == len(b) and all(x == y for x, y in zip(a, b))

    def implies(a, b): return (not a) or bool(b)
    def let(x): return x
    def qsqrt(x): return Q(math.sqrt(float(Q._u(x))))
    def qcos(x): return Q(math.cos(float(Q._u(x))))
    def qsin(x): return Q(math.sin(float(Q._u(x))))
    def typ(x): return getattr(x, 'orig_type', type(x))
    import desper.math as dm
    env = dict(sq=sq, dotp=dotp, parallel=parallel, mm=mm, vm=vm, ident=ident, det=det, same=same,
               implies=implies, let=let, sqrt=qsqrt, cos=qcos, sin=qsin, type=typ,
               warned=lambda: state['warned'],
               Real=[Q(0), Q(1), Q(Fraction(-5, 2)), Q(7)],
               Vec2=dm.Vec2, Vec3=dm.Vec3, Vec4=dm.Vec4, Mat3=dm.Mat3, Mat4=dm.Mat4)
    return env


def call_real(contract, args):
    """Call the real function named by a contract key with native arguments."""
    import desper.math as dm
    qual = contract.split('#')[0]
    parts = qual.split('.')[2:]
    state = {'warned': False}
    with warnings.catch_warnings(record=True) as wl:
        warnings.simplefilter('always')
        if len(parts) == 1:
            fn = getattr(dm, parts[0])
            res = fn(**args)
        else:
            cls = getattr(dm, parts[0])
            raw = cls.__dict__.get(parts[1])
            a = dict(args)
            if isinstance(raw, property):
                res = raw.fget(a.pop('self'))
            elif isinstance(raw, classmethod):
                a.pop('cls', None)
                res = getattr(cls, parts[1])(**a)
            elif isinstance(raw, staticmethod):
                res = raw.__func__(**a)
            elif parts[1] == '__new__':
                a.pop('cls', None)
                res = cls(**a)
            else:
                slf = a.pop('self')
                res = raw(slf, **a)
        state['warned'] = len(wl) > 0
    return res, state


def evaluate(contract, clause, kind, args):
    """-> (holds: bool, detail)"""
    exc = None
    try:
        res, state = call_real(contract, args)
    except Exception as e:      # the real code raised
        exc = e
        res, state = None, {'warned': False}
    if kind == 'no-implicit-exception':
        return (exc is None), {'raised': repr(exc)}
    if exc is not None:
        if kind == 'raises':
            env = helpers(state)
            env.update({k: wrap(v) for k, v in args.items()})
            return bool(eval(clause, env)), {'raised': repr(exc)}
        return False, {'raised': repr(exc), 'note': 'exception where a normal return is specified'}
    if kind == 'raises':
        return True, {'note': 'no exception on this input'}
    env = helpers(state)
    env.update({k: wrap(v) for k, v in args.items()})
    env['result'] = wrap(res)
    try:
        ok = bool(eval(clause, env))
    except ZeroDivisionError:
        return True, {'note': 'clause undefined on this input'}
    return ok, {'result': repr(res)}


def random_args(params, rng):
    import desper.math as dm
    pool = [Fraction(n, d) for n in range(-6, 7) for d in (1, 2, 3)]
    out = {}
    for k, sh in params.items():
        if 'len' in sh:
            items = [rng.choice(pool) for _ in range(sh['len'])]
            if rng.random() < 0.15:
                items = [Fraction(0)] * sh['len']
            out[k] = build_value({'cls': sh.get('cls'), 'items': [str(i) for i in items]})
        elif 'con' in sh:
            out[k] = eval(sh['con'])
        elif 'class' in sh:
            out[k] = getattr(dm, sh['class'].split('.')[-1])
        else:
            out[k] = rng.choice(pool)
    return out


def show(args):
    return {k: repr(v) for k, v in args.items()}


def generic_suite(req):
    """Search without a target obligation (bounded complement / stand-in): the polynomial
    operations on random RATIONAL vectors and matrices against definitions written here; results
    must be exact (a float where a rational is due is a failure)."""
    import desper.math as dm
    rng = random.Random(req.get('seed', 0))
    n = 300 if req.get('tier') != 'thorough' else 1500

    def fr():
        return Fraction(rng.randint(-9, 9), rng.randint(1, 7))

    def exact(x):
        return isinstance(x, (int, Fraction)) and not isinstance(x, bool)

    def bad(what, got, exp, args):
        return {'status': 'reproduced', 'history': {'call': what, 'args': {k: repr(v) for k, v in args.items()}},
                'observed': '%s returned %r, expected %r' % (what, got, exp), 'found_by': 'native generic suite',
                'signature': 'C18:' + what}
    # (the default Mat4() has float entries: an integer identity keeps the comparison exact)
    I4 = dm.Mat4([1 if i % 5 == 0 else 0 for i in range(16)])
    for it in range(n):
        for V, k in ((dm.Vec2, 2), (dm.Vec3, 3), (dm.Vec4, 4)):
            a, b = V(*[fr() for _ in range(k)]), V(*[fr() for _ in range(k)])
            big = V(*([2 ** 53] + [1] * (k - 1)))
            one = V(*([1] * k))
            t = fr()
            d = a.dot(b)
            e = sum(x * y for x, y in zip(a, b))
            if d != e or not exact(d):
                return bad(V.__name__ + '.dot', d, e, {'a': a, 'b': b})
            d = big.dot(one)
            if d != 2 ** 53 + k - 1 or not exact(d):
                return bad(V.__name__ + '.dot', d, 2 ** 53 + k - 1, {'a': big, 'b': one})
            for name, got, exp in (('__add__', a + b, [x + y for x, y in zip(a, b)]),
                                   ('__sub__', a - b, [x - y for x, y in zip(a, b)]),
                                   ('__neg__', -a, [-x for x in a]),
                                   ('lerp', a.lerp(b, t), [x + (y - x) * t for x, y in zip(a, b)])):
                if list(got) != exp or not all(exact(x) for x in got) or type(got) is not V:
                    return bad('%s.%s' % (V.__name__, name), got, exp, {'a': a, 'b': b, 't': t})
        a, b = dm.Vec3(fr(), fr(), fr()), dm.Vec3(fr(), fr(), fr())
        c = a.cross(b)
        e = [a[1] * b[2] - a[2] * b[1], a[2] * b[0] - a[0] * b[2], a[0] * b[1] - a[1] * b[0]]
        if list(c) != e:
            return bad('Vec3.cross', c, e, {'a': a, 'b': b})
        A, B, C = (dm.Mat4([fr() for _ in range(16)]) for _ in range(3))
        v = dm.Vec4(fr(), fr(), fr(), fr())
        if tuple((A @ B) @ C) != tuple(A @ (B @ C)):
            return bad('Mat4.__matmul__ (associativity)', (A @ B) @ C, A @ (B @ C), {'A': A, 'B': B, 'C': C})
        if tuple(A @ I4) != tuple(A) or tuple(I4 @ A) != tuple(A):
            return bad('Mat4.__matmul__ (identity)', A @ I4, A, {'A': A})
        if tuple((A @ B) @ v) != tuple(B @ (A @ v)):
            return bad('Mat4.__matmul__ (vector)', (A @ B) @ v, B @ (A @ v), {'A': A, 'B': B, 'v': v})
        T = A.transpose()
        if any(T[4 * i + j] != A[4 * j + i] for i in range(4) for j in range(4)):
            return bad('Mat4.transpose', T, None, {'A': A})
        w = dm.Vec3(fr(), fr(), fr())

        def close(x, y):
            return all(abs(float(p_) - float(q_)) <= 1e-9 * max(1.0, abs(float(q_))) for p_, q_ in zip(x, y))
        if not close(A.translate(w), A @ dm.Mat4.from_translation(w)):
            return bad('Mat4.translate', A.translate(w), A @ dm.Mat4.from_translation(w), {'A': A, 'v': w})
        with warnings.catch_warnings():
            warnings.simplefilter('ignore')
            inv = ~A
        if inv is not A and not (close(A @ inv, I4) and close(inv @ A, I4)):
            return bad('Mat4.__invert__', A @ inv, I4, {'A': A})
    return {'status': 'not-found', 'tried': n}


def main():
    req = json.loads(sys.stdin.read())
    ob = req.get('obligation') or {}
    if req.get('mode') == 'search' and (not ob.get('contract') or ob.get('kind') == 'bounded'):
        print(json.dumps(generic_suite(req), default=str))
        return
    contract = ob.get('contract')
    clause = (ob.get('info') or {}).get('clause')
    kind = ob.get('kind')
    if contract is None or contract.startswith('lemma:') or (clause is None and kind != 'no-implicit-exception'):
        if contract and contract.startswith('lemma:'):
            return lemma_mode(req)
        print(json.dumps({'status': 'not-applicable', 'detail': 'no native oracle for this obligation'}))
        return
    if req['mode'] == 'replay':
        hist = req.get('history')
        if hist:
            args = {k: build_value(v) for k, v in hist['witness'].items()}
        elif ob.get('witness'):
            args = {k: build_value(v) for k, v in ob['witness'].items()}
        else:
            print(json.dumps({'status': 'no-witness'}))
            return
        ok, detail = evaluate(contract, clause, kind, args)
        print(json.dumps({'status': 'held' if ok else 'reproduced',
                          'history': {'call': contract, 'args': show(args), 'witness': ob.get('witness') or (hist or {}).get('witness')},
                          'clause': clause, 'observed': detail,
                          'signature': contract + ':' + str(clause)}))
        return
    # search: random rational inputs against the clause
    rng = random.Random(req.get('seed', 0))
    n = 4000 if req.get('tier') == 'thorough' else 800
    params = ob.get('params') or {}
    for _ in range(n):
        args = random_args(params, rng)
        ok, detail = evaluate(contract, clause, kind, args)
        if not ok:
            w = {}
            for k, v in args.items():
                if isinstance(v, tuple):
                    w[k] = {'cls': 'desper.math.' + type(v).__name__ if type(v) is not tuple else None,
                            'items': [str(Fraction(i)) for i in v]}
                elif isinstance(v, Fraction):
                    w[k] = str(v)
                elif isinstance(v, type):
                    w[k] = {'class': 'desper.math.' + v.__name__}
                else:
                    w[k] = {'con': repr(v)}
            print(json.dumps({'status': 'reproduced', 'history': {'call': contract, 'args': show(args), 'witness': w},
                              'clause': clause, 'observed': detail, 'found_by': 'native search',
                              'signature': contract + ':' + str(clause)}))
            return
    print(json.dumps({'status': 'not-found', 'tried': n}))


def lemma_mode(req):
    """Lemmas are ordinary Python: run the ghost client natively on rational
    matrices; a failing assert reproduces."""
    import desper.math as dm
    sys.path.insert(0, '.')
    lem = importlib.import_module('specs.lemmas_math')
    ob = req['obligation']
    name = ob['contract'][len('lemma:'):]
    fn = getattr(lem, name)
    rng = random.Random(req.get('seed', 0))
    pool = [Fraction(n, d) for n in range(-4, 5) for d in (1, 2)]

    def det4(a, n):
        return helpers({'warned': False})['det'](wrap(tuple(a)), n).v
    lem.det = det4
    skipped = [0]

    class Skip(Exception):
        pass

    def assume(c):
        if not c:
            raise Skip()
    lem.assume = assume
    import inspect
    names = list(inspect.signature(fn).parameters)
    shapes = ob.get('params') or {}
    cands = []
    if ob.get('witness') and req['mode'] == 'replay':
        try:
            cands.append({k: build_value(v) for k, v in ob['witness'].items()})
        except Exception:
            pass
    for _ in range(300):
        a = {}
        for n_ in names:
            sh = shapes.get(n_, {'cls': 'desper.math.Mat4', 'len': 16})
            a[n_] = build_value({'cls': sh.get('cls'), 'items': [str(rng.choice(pool)) for _ in range(sh['len'])]})
        cands.append(a)
    for a in cands:
        try:
            fn(**a)
        except Skip:
            continue
        except AssertionError:
            print(json.dumps({'status': 'reproduced', 'history': {'call': 'specs/lemmas_math.py:' + name, 'args': show(a)},
                              'observed': 'assert failed natively', 'signature': 'lemma:' + name}))
            return
    print(json.dumps({'status': 'not-found', 'tried': len(cands)}))


if __name__ == '__main__':
    main()
