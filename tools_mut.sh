#!/bin/sh
# usage: tools_mut.sh <PID> <python-snippet-file operating on cwd copy>   (development helper)
PID="$1"; SNIP="$2"
D=$(mktemp -d /tmp/mutXXXX)
cp -r /repo/desper "$D/desper"; cp -r /repo/tests "$D/tests" 2>/dev/null
(cd "$D" && python3 "$SNIP") || { echo "mutation failed"; rm -rf "$D"; exit 9; }
(cd "$D" && /venv/bin/python -m pytest -q -p no:cacheprovider -x 2>&1 | tail -1)
cd /verif && VERIF_REPO="$D" ./check "$PID" --no-evidence 2>&1 | tail -${3:-6}
rm -rf "$D"
