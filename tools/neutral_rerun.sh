#!/bin/sh
# Runs every behaviour-preserving edit under /verif/neutral against the check named in its
# file name (scratch worktree of /repo HEAD under /tmp, removed afterwards): all must exit 0.
cd /verif
for F in neutral/*.diff; do
  PID=$(basename $F | sed 's/^N[0-9]*_\(C[0-9]*\)_.*/\1/')
  D=$(mktemp -d /tmp/neutXXXX); rmdir "$D"
  git -C /repo worktree add -q --detach "$D" HEAD || continue
  if ! git -C "$D" apply /verif/$F; then echo "$F PATCH DOES NOT APPLY"; git -C /repo worktree remove --force "$D"; continue; fi
  TESTS=$(cd "$D" && /venv/bin/python -m pytest -q -p no:cacheprovider 2>&1 | tail -1)
  OUT=$(VERIF_REPO="$D" ./check $PID --no-evidence 2>&1 | grep "VIOLATION\|UNDECIDED\|exit=" | tail -3)
  echo "$F tests=[$TESTS] $(echo "$OUT" | tail -1 | cut -c1-160)"
  git -C /repo worktree remove --force "$D"
done
