#!/bin/sh
# usage: seed_ingest.sh <seed-id> <property> <agent-worktree> [check-pids...]
# Confirms a seeded change in a fresh scratch worktree of /repo HEAD (tests pass with the
# change, demo fails with it and passes without it), stores it under /verif/seeded/<seed-id>/
# and runs the given checks against the changed tree (VERIF_REPO points at the scratch tree).
SID="$1"; PID="$2"; WT="$3"; shift 3
D=$(mktemp -d /tmp/seedXXXX); rmdir "$D"
git -C /repo worktree add -q --detach "$D" HEAD || exit 9
cp "$WT/demo.py" "$D/demo.py"
cd "$D"
/venv/bin/python demo.py >/tmp/seed_clean.out 2>&1; CLEAN=$?
if ! git apply "$WT/patch.diff"; then echo "PATCH DOES NOT APPLY"; git -C /repo worktree remove --force "$D"; exit 8; fi
TESTS=$(/venv/bin/python -m pytest -q -p no:cacheprovider 2>&1 | tail -1)
/venv/bin/python demo.py >/tmp/seed_mut.out 2>&1; MUT=$?
echo "clean-demo-exit=$CLEAN mutated-demo-exit=$MUT tests: $TESTS"
mkdir -p /verif/seeded/$SID
cp "$WT/patch.diff" "$WT/demo.py" /verif/seeded/$SID/
RES=""
for P in "$@"; do
  OUT=$(cd /verif && VERIF_REPO="$D" ./check $P --no-evidence 2>&1 | grep -v "SLOW\|GEN" | tail -4)
  EXIT=$(echo "$OUT" | tail -1 | sed 's/.*exit=//')
  echo "--- $P exit=$EXIT"; echo "$OUT" | cut -c1-300
  RES="$RES $P:exit=$EXIT"
done
python3 - "$SID" "$PID" "$WT" "$CLEAN" "$MUT" "$TESTS" "$RES" <<'PY'
import json,sys
sid,pid,wt,clean,mut,tests,res=sys.argv[1:8]
try: meta=json.load(open(wt+'/meta.json'))
except Exception: meta={}
meta.update({'property':pid,'confirmed':{'demo_exit_unchanged':int(clean),'demo_exit_changed':int(mut),'tests_with_change':tests},
 'ran':'fresh scratch worktree of /repo HEAD; git apply patch.diff; /venv/bin/python -m pytest -q; /venv/bin/python demo.py; VERIF_REPO=<scratch> ./check <P>',
 'checks':res.strip()})
json.dump(meta,open('/verif/seeded/%s/meta.json'%sid,'w'),indent=1)
PY
git -C /repo worktree remove --force "$D"
