"""Development helper: run the contracts of a property, keep the SMT-LIB text of every
obligation that is not proved under /tmp/dbg/ (python3-vt tools/dbg.py C08 [only-substring])."""
import os, sys
sys.path.insert(0, os.path.dirname(os.path.dirname(os.path.abspath(__file__))))
from pyvc import driver
from specs import TABLE
pid = sys.argv[1]
only = sys.argv[2] if len(sys.argv) > 2 else None
entry = TABLE[pid]
sp = driver.build_spec(entry['modules'])
keys = [k for k, c in sp.contracts.items() if pid in c.props and (not only or only in k)]
opts = dict(entry.get('opts', {}), keep_smt2=True, canary=True)
res = driver.run_all(entry['modules'], keys, int(os.environ.get('TMO', '10000')), 0, opts, workers=16)
os.makedirs('/tmp/dbg', exist_ok=True)
n = 0
for r in res:
    if r['error']:
        print('ERROR', r['key'], r['error'][:2000])
    for o in r['obligations']:
        if o['result'] not in ('proved',) and o['kind'] != 'canary':
            fn = '/tmp/dbg/%d.smt2' % n
            open(fn, 'w').write(o.get('smt2', ''))
            print(n, o['name'], o['result'], o.get('path', '')[:80])
            n += 1
