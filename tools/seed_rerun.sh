#!/bin/sh
# Re-runs every stored seeded change against the current checks and refreshes the
# "checks" field of its meta.json (scratch worktree of /repo HEAD under /tmp, removed afterwards).
# usage: tools/seed_rerun.sh [seed-id ...]
cd /verif
IDS="$@"; [ -z "$IDS" ] && IDS=$(ls seeded)
for SID in $IDS; do
  PID=$(python3 -c "import json;print(json.load(open('seeded/$SID/meta.json'))['property'])")
  D=$(mktemp -d /tmp/seedXXXX); rmdir "$D"
  git -C /repo worktree add -q --detach "$D" HEAD || continue
  if ! git -C "$D" apply /verif/seeded/$SID/patch.diff; then echo "$SID PATCH DOES NOT APPLY"; git -C /repo worktree remove --force "$D"; continue; fi
  cp seeded/$SID/demo.py "$D/demo.py"
  (cd "$D" && /venv/bin/python demo.py >/dev/null 2>&1); MUT=$?
  TESTS=$(cd "$D" && /venv/bin/python -m pytest -q -p no:cacheprovider 2>&1 | tail -1)
  OUT=$(VERIF_REPO="$D" ./check $PID --no-evidence 2>&1 | grep "VIOLATION\|exit=" | tail -3)
  EXIT=$(echo "$OUT" | tail -1 | sed 's/.*exit=//')
  OBL=$(echo "$OUT" | grep VIOLATION | head -2 | sed 's/.*replay=replays\/[A-Z0-9]*\///; s/\.json//' | tr '\n' ' ')
  echo "$SID $PID exit=$EXIT demo=$MUT tests=[$TESTS] $OBL"
  python3 - "$SID" "$PID" "$EXIT" "$OBL" "$MUT" "$TESTS" <<'PY'
import json,sys
sid,pid,ex,obl,mut,tests=sys.argv[1:7]
p='/verif/seeded/%s/meta.json'%sid
m=json.load(open(p))
m['checks']='%s:exit=%s'%(pid,ex)
m['reported_by']=obl.strip()
m.setdefault('confirmed',{})['demo_exit_changed']=int(mut)
m['confirmed']['tests_with_change']=tests
json.dump(m,open(p,'w'),indent=1)
PY
  git -C /repo worktree remove --force "$D"
done
