"""Contracts for desper/model/world.py (C15) and desper/model/__init__.py (C16).

Both modules are glue: they turn a description (a dictionary / a directory listing)
into a sequence of calls on a World / a ResourceMap.  The contracts therefore say
WHICH calls are made, with which arguments, in which order, for every description
(ghost logs of constructions, add_processor / create_entity / __setitem__
invocations); what those calls do to the world / the map is the subject of
C01-C07 and C11 (contracts verified there, composed in DESIGN.md).  json, re,
importlib, glob and os.path are assumed by contract (listed in the evidence)."""
import z3

from pyvc import theory as T, prelude
from pyvc.sym import forall
from pyvc.sym import (Con, ZV, TupV, ListV, TScalar, TBool, TInt, TReal, TList, TSort, TOpt, TSet, TDict, usort,
                      none_of, deref, NONE, Loc)
from pyvc.exec import OpenFn, BoundMethod, Builtin, ClassLevel, ExcV, PyRaise, ClassV
from . import events_spec as EV, world_spec as WS, tree_spec as TS

MW = 'desper.model.world.'
MI = 'desper.model.'
World, Proc, Comp, Ent = WS.World, WS.Proc, WS.Comp, WS.Ent
G = 'desper.logic.'
WH = TSort('WHandle')          # WorldHandle and subclasses
WFT = TSort('WFT')             # WorldFromFileTransformer instances
DTF = TSort('DictTF')          # dict transformers (callables)
TF = TSort('TransFn')          # a transform function (any callable taking handle, world)
TFC = T.TTupleSort('TFC', [('tfc_f', TF), ('tfc_h', WH), ('tfc_w', World)])


def glist(spec, name):
    def fn(X):
        if name not in X.ghost:
            spec.havoc_ghost(X, name)
        return X.ghost[name]
    return fn


def append_ghost(X, spec, name, term):
    g = glist(spec, name)(X)
    X.ghost[name] = ListV(g.E, g.n + 1, [z3.Store(g.ats[0], g.n, term)])


def declare(spec):
    if getattr(spec, '_model_common', False):
        return
    spec._model_common = True
    WS.declare(spec)
    for n in ('WHandle', 'TransFn', 'WFT', 'DictTF'):
        spec.sort_name(n)
    spec.klass(MW + 'WorldFromFileTransformer', 'WFT', fields=dict(dict_transformers=TList(DTF)))
    spec.klass(None, 'DictTF')
    T.declare_injection('WFT', 'TransFn')
    T.FNREF_SORTS.update({'TransFn', 'DictTF'})

    # the two utility processors: new, live objects of exactly that class
    def new_proc(qual):
        def mk(X, cv, args, kwargs, node):
            if args or kwargs:
                X.unsupported('arguments to %s()' % qual, node)
            p = z3.Const(X.fresh_name('new_Proc'), Proc.sort)
            alloc = spec.alloc_array(X, Proc.sort)
            X.assume(z3.Not(alloc[p]))
            X.assume(p != none_of(Proc.sort))
            X.ghost['alloc_Proc'] = z3.Store(alloc, p, True)
            X.assume(spec.eval_bool(X, 'alive(p) and typeof(p) == K', {'p': ZV(p), 'K': ZV(prelude.class_term(None, ClassV(qual)))}))
            return ZV(p)
        return mk
    for qual in (G + 'OnUpdateProcessor', G + 'coroutines.CoroutineProcessor'):
        spec.constructors[qual] = new_proc(qual)
    spec.note_assumption('OnUpdateProcessor() and CoroutineProcessor() return new, live processor objects '
                         'of exactly that class (their own state is the subject of C08/C09/C19)')
    spec.sort_name('TFC', TFC.sort)
    spec.klass(MW + 'WorldHandle', 'WHandle', fields=dict(transform_functions=TList(TF), filename=TSort('Str')))
    T.declare_class_of('WHandle', MW + 'WorldHandle')
    spec.klass(None, 'TransFn')
    # ghost: the transform functions called so far, with their arguments
    spec.ghost_decls['tflog'] = TList(TFC)
    spec.define('tflog', glist(spec, 'tflog'))
    spec.define('tfc', lambda X, f, h, w: ZV(TFC.make([f, h, w])))

    prev = getattr(spec, 'call_object_hook', None)

    def call_obj(X, f, args, kwargs, node):
        if f.t.sort().name() == 'TransFn':
            # transform_function(handle, world): user code that may do anything to the world
            # through its public operations (re-entry on the world, not on the handle)
            if len(args) != 2 or kwargs:
                X.unsupported('transform function called with other than (handle, world)', node)
            h, w = deref(args[0]), deref(args[1])
            append_ghost(X, spec, 'tflog', TFC.make([f, h, w]))
            c = T.call_term('transform', f.t, h.t, w.t)
            site = spec.site_config(X, node)
            T.open_site(X, c, node, rely=[w], reenter=True, raises=site.get('raises', ['$OtherException']),
                        name='transform_function')
            return NONE
        if prev is not None:
            return prev(X, f, args, kwargs, node)
        X.unsupported('call of %r' % (f,), node)
    spec.call_object_hook = call_obj
    # collections.deque() as a list
    spec.externals['collections.deque'] = lambda X: Builtin(
        'deque', lambda X, a, k, n: TupV(X.iter_concrete(a[0], n) if a else [], is_list=True))


def register(spec):
    declare(spec)
    WS.register(spec)
    C = spec.contract
    q = MW + 'WorldHandle.'
    C(q + '__init__', params=dict(self=WH), props=['C15'], modifies=['self.transform_functions'],
      ensures={'no-transformers-yet': 'len(self.transform_functions) == 0'})

    # what a transform function may do to the world it is given: anything through the world's
    # public operations, except switching event dispatching back on (the two default
    # transformers are verified against this below)
    spec.sites['WorldHandle.load'] = {
        'reenter': True,
        'rely': [('dispatching-stays-off', 'self._dispatch_enabled == old(self._dispatch_enabled)'),
                 ('queued-events-stay-queued', 'implies(not old(self._dispatch_enabled), '
                                               'is_prefix(old(self._event_queue), self._event_queue))')]}
    n_tf = 'len(self.transform_functions)'
    C(q + 'load', params=dict(self=WH), props=['C15'], returns=World,
      requires=['all(implies(0 <= i and i < %s, self.transform_functions[i] != None) for i in Int)' % n_tf],
      modifies=['ghost:tflog', 'ghost:dlog', 'ghost:log', 'ghost:cnt', 'ghost:alive', 'ghost:alloc_World',
                'World._events', 'World._handlers', 'World._event_queue', 'World._dispatch_enabled',
                'World._components', 'World._entities', 'World._dead_entities', 'World._never', 'World._sorted_processors',
                'World._processors', 'World.id_generator', 'World.id_generator_factory'],
      open_effect=True, rely=[],
      ensures={
          'a-new-world': 'result != None and not old(allocated(result))',
          'returned-with-dispatching-disabled': 'not result._dispatch_enabled',
          'every-transformer-once-in-order': (
              'len(tflog()) == len(old(tflog())) + %s and is_prefix(old(tflog()), tflog()) and '
              'all(implies(0 <= i and i < %s, tflog()[len(old(tflog())) + i] == '
              'tfc(self.transform_functions[i], self, result)) for i in Int)' % (n_tf, n_tf)),
          'on_world_load-dispatched-once-after-them': (
              "len(dlog()) == len(old(dlog())) + 1 and "
              "dlog()[len(old(dlog()))] == qe('on_world_load', pack(self, result), kw_empty())"),
          # ... and, dispatching being off, waits at the end of the queue - behind the on_add relays
          # queued while the transformers attached the components (an event nobody listens for
          # is dropped by dispatch, C03)
          'queued-last': ("implies('on_world_load' in result._events, len(result._event_queue) >= 1 and "
                          "result._event_queue[len(result._event_queue) - 1] "
                          "== qe('on_world_load', pack(self, result), kw_empty()))"),
          'world-wf': "wf(result)",
      },
      raises={'$OtherException': {'from-a-transform-function': 'True'}})
    spec.define('allocated', lambda X, o: ZV(spec.alloc_array(X, deref(o).t.sort())[deref(o).t]))
    spec.loop(q + 'load', 0, index='i', seq='tfs', invariants={
        'wf': 'wf(world)',
        'still-disabled': 'not world._dispatch_enabled',
        'called-so-far': ('len(tflog()) == len(old(tflog())) + i and is_prefix(old(tflog()), tflog()) and '
                          'all(implies(0 <= k and k < i, tflog()[len(old(tflog())) + k] == '
                          'tfc(tfs[k], self, world)) for k in Int)'),
        'nothing-dispatched-by-load': 'dlog() == old(dlog())',
        'same-list': 'tfs == self.transform_functions',
    }, havoc=['ghost:tflog', 'ghost:log', 'ghost:cnt', 'ghost:alive', 'World._events', 'World._handlers',
              'World._event_queue', 'World._dispatch_enabled', 'World._components', 'World._entities',
              'World._dead_entities', 'World._never', 'World._sorted_processors', 'World._processors', 'World.id_generator',
              'World.id_generator_factory'])


def register_file_handle(spec):
    C = spec.contract
    Wq = WS.W

    # ---- default_processors_transformer: exactly the two utility processors, in this order
    def two_defaults(X, short):
        calls = [e for e in X.events if e[0] == 'call' and e[1] == Wq + 'add_processor']
        others = [e for e in X.events if e[0] == 'call' and e[1] != Wq + 'add_processor']
        X.oblige(short + ':adds-exactly-two-processors', z3.BoolVal(len(calls) == 2 and not others),
                 kind='delegation', role='prop', assume_after=False)
        if len(calls) != 2:
            return
        env = dict(X.entry_env)
        for i, qual in enumerate((G + 'OnUpdateProcessor', G + 'coroutines.CoroutineProcessor')):
            cenv = calls[i][2]
            f = spec.eval_bool(X, 'w == world and typeof(p) == K and pr == None',
                               dict(env, w=cenv['self'], p=cenv['processor'], pr=cenv['priority'],
                                    K=ZV(prelude.class_term(None, ClassV(qual)))))
            X.oblige('%s:processor-%d-is-%s' % (short, i, qual.split('.')[-1]), f, kind='delegation',
                     role='prop', assume_after=False)
    c = C(MW + 'default_processors_transformer', params=dict(world_handle=WH, world=World), props=['C15'],
          requires=['world != None', 'wf(world)'], open_effect=True, rely=['world'],
          modifies=['world._sorted_processors', 'world._processors', 'world._events', 'world._handlers',
                    'world._event_queue', 'ghost:log', 'ghost:cnt', 'ghost:alloc_Proc', 'Proc.priority',
                    'Proc.world'],
          ensures={
              'wf': 'wf(world)',
              # what WorldHandle.load relies on for every transform function
              'dispatching-stays-off': 'world._dispatch_enabled == old(world._dispatch_enabled)',
              'queued-events-stay-queued': 'implies(not old(world._dispatch_enabled), '
                                           'is_prefix(old(world._event_queue), world._event_queue))',
              'both-registered': 'OnUpdateProcessor in world._processors and '
                                 'CoroutineProcessor in world._processors',
              'entities-untouched': 'world._entities == old(world._entities)',
          },
          raises={'$OtherException': {'from-a-callback': 'True'}, 'AssertionError': {'never': 'False'}})
    c.path_checks = [two_defaults]
    spec.spec_names['OnUpdateProcessor'] = ZV(prelude.class_term(None, ClassV(G + 'OnUpdateProcessor')))
    spec.spec_names['CoroutineProcessor'] = ZV(prelude.class_term(None, ClassV(G + 'coroutines.CoroutineProcessor')))

    # ---- the file handle: defaults first, then the file transformer with its three dict transformers
    C(MW + 'WorldFromFileTransformer.__init__', params=dict(self=WFT, dict_transformers=TList(DTF)),
      props=['C15'], modifies=['self.dict_transformers'],
      ensures={'keeps-the-list': 'self.dict_transformers == dict_transformers'})
    C(MW + 'WorldFromFileHandle.__init__', params=dict(self=WH, filename=TSort('Str')), props=['C15'],
      modifies=['self.transform_functions', 'self.filename', 'ghost:alloc_WFT', 'WFT.dict_transformers'],
      ensures={
          'keeps-the-filename': 'self.filename == filename',
          'defaults-first-then-the-file': (
              'len(self.transform_functions) == 2 and '
              'self.transform_functions[0] == fnref(default_processors_transformer) and '
              'is_file_transformer(self.transform_functions[1])'),
          'with-the-three-argument-transformers-in-order': (
              'let(t=as_wft(self.transform_functions[1]), body=len(t.dict_transformers) == 3 and '
              't.dict_transformers[0] == dfnref(type_dict_transformer) and '
              't.dict_transformers[1] == dfnref(object_dict_transformer) and '
              't.dict_transformers[2] == dfnref(resource_dict_transformer))'),
      })
    from pyvc.exec import Closure

    def fnref_of(sort):
        def f(X, v):
            return ZV(T._coerce(v, sort.sort))
        return f
    spec.define('fnref', fnref_of(TF))
    spec.define('dfnref', fnref_of(DTF))
    spec.define('as_wft', lambda X, v: ZV(T._coerce(v, WFT.sort)))
    spec.define('is_file_transformer', lambda X, v: ZV(z3.And(
        T._coerce(v, WFT.sort) != none_of(WFT.sort),
        T._coerce(ZV(T._coerce(v, WFT.sort)), TF.sort) == deref(v).t)))


_reg_model0 = register


def register(spec):     # noqa: F811
    _reg_model0(spec)
    register_file_handle(spec)


# ---------------------------------------------------------------- populate_world_from_dict

WD = TSort('WDct')      # the world dictionary
PD = TSort('PDct')      # one processor dictionary
ED = TSort('EDct')      # one entity dictionary
CD = TSort('CDct')      # one component dictionary
PCtor = TSort('PCtor')  # value under 'type' of a processor dictionary (any callable)
CCtor = TSort('CCtor')
PK = T.TTupleSort('PK', [('pk_t', PCtor), ('pk_a', EV.ArgPack), ('pk_k', EV.KwPack), ('pk_r', Proc)])
CK = T.TTupleSort('CK', [('ck_t', CCtor), ('ck_a', EV.ArgPack), ('ck_k', EV.KwPack), ('ck_r', Comp)])
APC = T.TTupleSort('APC', [('ap_w', World), ('ap_p', Proc), ('ap_default', TBool)])


def declare_dicts(spec):
    if getattr(spec, '_model_dicts', False):
        return
    spec._model_dicts = True
    for n, S_ in (('WDct', None), ('PDct', None), ('EDct', None), ('CDct', None), ('PCtor', None), ('CCtor', None),
                  ('PK', PK.sort), ('CK', CK.sort), ('APC', APC.sort)):
        spec.sort_name(n, S_)
    # a dictionary with fixed string keys is a record with optional fields (has_x / x)
    Wk = spec.klass(None, 'WDct', fields=dict(has_processors=TBool, processors=TList(PD),
                                              has_entities=TBool, entities=TList(ED)))
    Pk = spec.klass(None, 'PDct', fields=dict(type=PCtor, has_args=TBool, args=EV.ArgPack,
                                              has_kwargs=TBool, kwargs=EV.KwPack))
    Ek = spec.klass(None, 'EDct', fields=dict(has_id=TBool, id=Ent, has_components=TBool, components=TList(CD)))
    Ck = spec.klass(None, 'CDct', fields=dict(type=CCtor, has_args=TBool, args=EV.ArgPack,
                                              has_kwargs=TBool, kwargs=EV.KwPack))
    spec.klass(None, 'PCtor')
    spec.klass(None, 'CCtor')
    OPTIONAL = {'WDct': {'processors': 'list', 'entities': 'list'},
                'EDct': {'id': 'scalar', 'components': 'list'},
                'PDct': {'args': 'pack', 'kwargs': 'kw'}, 'CDct': {'args': 'pack', 'kwargs': 'kw'}}

    def field_or_default(X, obj, key, default, node):
        sn = obj.t.sort().name()
        kind = OPTIONAL.get(sn, {}).get(key)
        if kind is None:
            X.unsupported('%s.get(%r)' % (sn, key), node)
        has = deref(X.read_field(obj.t, 'has_' + key)).t
        v = deref(X.read_field(obj.t, key))
        d = deref(default)
        if kind == 'list':
            if not (isinstance(d, TupV) and not d.items):
                X.unsupported('default of .get(%r) is not []' % key, node)
            return ListV(v.E, z3.If(has, v.n, 0), v.ats)
        if kind == 'scalar':
            return ZV(z3.If(has, v.t, T._coerce(d, v.t.sort())))
        if kind == 'pack':
            return ZV(z3.If(has, v.t, T.make_pack([])))
        return ZV(z3.If(has, v.t, T.EMPTY_KW))

    def get_hook(X, obj, node):
        def fn(X, args, kw, node):
            k = deref(args[0])
            if not (isinstance(k, Con) and isinstance(k.v, str)):
                X.unsupported('dict.get with a computed key', node)
            return field_or_default(X, obj, k.v, args[1] if len(args) > 1 else NONE, node)
        return Builtin('dict.get', fn)
    for k in (Wk, Pk, Ek, Ck):
        k.attr_hooks['get'] = get_hook
    prev_gi = getattr(spec, 'getitem_object_hook', None)

    def getitem(X, c, k, node):
        sn = c.t.sort().name()
        k = deref(k)
        if sn in ('PDct', 'CDct') and isinstance(k, Con) and k.v == 'type':
            return X.read_field(c.t, 'type')
        if prev_gi is not None:
            return prev_gi(X, c, k, node)
        X.unsupported('subscript of object %r' % (c,), node)
    spec.getitem_object_hook = getitem
    spec.define('listed_processors', lambda X, d: field_or_default(X, deref(d), 'processors', TupV([], is_list=True), None))
    spec.define('listed_entities', lambda X, d: field_or_default(X, deref(d), 'entities', TupV([], is_list=True), None))
    spec.define('listed_components', lambda X, d: field_or_default(X, deref(d), 'components', TupV([], is_list=True), None))
    spec.define('listed_id', lambda X, d: field_or_default(X, deref(d), 'id', NONE, None))
    spec.define('listed_args', lambda X, d: field_or_default(X, deref(d), 'args', TupV([], is_list=True), None))
    spec.define('listed_kwargs', lambda X, d: field_or_default(X, deref(d), 'kwargs', Con({}), None))

    # ghost logs: constructions of processors / components, add_processor and create_entity calls
    for name, E in (('pklog', PK), ('cklog', CK), ('aplog', APC), ('ceworld', World), ('ceids', Ent),
                    ('cecomps', TList(Comp))):
        spec.ghost_decls[name] = TList(E)
        spec.define(name, glist(spec, name))
    for sn in ('Proc', 'Comp', 'WFT', 'World'):
        spec.ghost_decls.setdefault('alloc_' + sn, spec.alloc_havoc(sn))
    spec.define('pk', lambda X, t, a, k, r: ZV(PK.make([t, a, k, r])))
    spec.define('ck', lambda X, t, a, k, r: ZV(CK.make([t, a, k, r])))
    spec.define('pk_r', lambda X, x: ZV(PK.dt.pk_r(deref(x).t)))
    spec.define('ck_r', lambda X, x: ZV(CK.dt.ck_r(deref(x).t)))
    spec.define('apc', lambda X, w, p, d: ZV(APC.make([w, p, ZV(X._z(X.truth(d)))])))
    spec.define('place', lambda X, a, i: ZV(deref(a).t[X.num(i)]))

    prev = getattr(spec, 'call_object_hook', None)

    def call_obj(X, f, args, kwargs, node):
        sn = f.t.sort().name()
        if sn in ('PCtor', 'CCtor'):
            # type(*args, **kwargs) with the packs of a description: user code building an object
            from pyvc.exec import StarPack
            if len(args) != 1 or not isinstance(args[0], StarPack) or set(kwargs) - {'**'}:
                X.unsupported('listed type called with other than (*args, **kwargs)', node)
            a = T._coerce(args[0].v, EV.ArgPack.sort)
            k = T._coerce(kwargs.get('**', Con({})), EV.KwPack.sort)
            RT = Proc if sn == 'PCtor' else Comp
            c = T.call_term('construct', T._coerce(f, usort('Ctor')) if False else ctor_of(f.t), a, k)
            T.open_site(X, c, node, reenter=False, check_wf=False, raises=['$OtherException'],
                        name='listed type')
            r = z3.Const(X.fresh_name('made_' + RT.sort.name()), RT.sort)
            alloc = spec.alloc_array(X, RT.sort)
            X.assume(z3.Not(alloc[r]))
            X.assume(r != none_of(RT.sort))
            X.ghost['alloc_' + RT.sort.name()] = z3.Store(alloc, r, True)
            X.assume(spec.eval_bool(X, 'alive(o)', {'o': ZV(r)}))
            if sn == 'PCtor':
                append_ghost(X, spec, 'pklog', PK.make([f, ZV(a), ZV(k), ZV(r)]))
            else:
                append_ghost(X, spec, 'cklog', CK.make([f, ZV(a), ZV(k), ZV(r)]))
            return ZV(r)
        if prev is not None:
            return prev(X, f, args, kwargs, node)
        X.unsupported('call of %r' % (f,), node)
    spec.call_object_hook = call_obj
    CT = usort('Ctor')
    pin = z3.Function('ctor_of_p', PCtor.sort, CT)
    cin = z3.Function('ctor_of_c', CCtor.sort, CT)

    def ctor_of(t):
        return pin(t) if t.sort() == PCtor.sort else cin(t)
    spec.note_assumption('a type listed in a description returns a new, live object when called '
                         '(or raises); it does not touch the world being populated')


def register_populate(spec):
    declare_dicts(spec)
    C = spec.contract
    Wq = WS.W
    # World.add_processor: the contract verified under C07, with its invocations recorded
    spec.contracts[Wq + 'add_processor'].log_invocation = ('aplog', 'apc(self, processor, priority == None)')
    # World.create_entity: invocations recorded; of its verified contract (C01/C02) only what the
    # caller below needs is taken over, under the precondition that descriptions are well formed
    full = spec.contracts[Wq + 'create_entity']
    keep = ('wf', 'flag-untouched', 'processors-untouched')
    light = C(Wq + 'create_entity', params={'self': World, 'components': TList(Comp), 'entity_id': Ent},
              props=[], requires=['wf(self)'], returns=Ent, modifies=list(full.modifies), open_effect=True,
              ensures={n: (t, r) for n, t, r in full.ensures if n in keep},
              raises={'$OtherException': {'from-callback-only': 'True'}},
              log_invocation=[('ceworld', 'self'), ('ceids', 'entity_id'), ('cecomps', 'components')])
    missing = set(keep) - {n for n, t, r in full.ensures}
    if missing:
        raise RuntimeError('create_entity contract lost clauses %r' % missing)
    spec.note_assumption('World.create_entity is used through the clauses wf / flag-untouched / '
                         'processors-untouched of its contract verified under C01/C02; its precondition '
                         '(per entity: distinct exact component types, new identifier, unattached components) '
                         'is part of "well-formed description" and is not re-checked at this call')

    P = 'listed_processors(world_dict)'
    E = 'listed_entities(world_dict)'
    np_, ne_ = 'len(%s)' % P, 'len(%s)' % E
    LOGS = ['ghost:pklog', 'ghost:cklog', 'ghost:aplog', 'ghost:ceworld', 'ghost:ceids', 'ghost:cecomps']
    WSTATE = ['world._sorted_processors', 'world._processors', 'world._events', 'world._handlers',
              'world._event_queue', 'world._components', 'world._entities', 'world._dead_entities', 'world._never',
              'world.id_generator', 'world.id_generator_factory', 'ghost:log', 'ghost:cnt',
              'ghost:alloc_Proc', 'ghost:alloc_Comp', 'ghost:alive', 'Proc.priority', 'Proc.world']

    def built_p(i, base_k, base_a):
        return ('let(d=%s[%s], c=pklog()[%s + %s], body=c == pk(d.type, listed_args(d), listed_kwargs(d), pk_r(c)) '
                'and aplog()[%s + %s] == apc(world, pk_r(c), True))' % (P, i, base_k, i, base_a, i))

    procs_done = ('len(pklog()) == len(old(pklog())) + %s and is_prefix(old(pklog()), pklog()) and '
                  'len(aplog()) == len(old(aplog())) + %s and is_prefix(old(aplog()), aplog()) and '
                  'all(implies(0 <= j and j < %s, ' + built_p('j', 'len(old(pklog()))', 'len(old(aplog()))')
                  + ') for j in Int)')

    def ents_clauses(n):
        """One quantified clause per log (each has a single-array trigger)."""
        return {
            'counted': ('len(ceworld()) == len(old(ceworld())) + %s and len(ceids()) == len(old(ceids())) + %s '
                        'and len(cecomps()) == len(old(cecomps())) + %s and is_prefix(old(cklog()), cklog())'
                        % (n, n, n)),
            'in-this-world': 'all(implies(0 <= t and t < %s, ceworld()[len(old(ceworld())) + t] == world) '
                             'for t in Int)' % n,
            'under-the-listed-id': 'all(implies(0 <= t and t < %s, ceids()[len(old(ceids())) + t] == '
                                   'listed_id(%s[t])) for t in Int)' % (n, E),
            'as-many-components': 'all(implies(0 <= t and t < %s, len(cecomps()[len(old(cecomps())) + t]) == '
                                  'len(listed_components(%s[t]))) for t in Int)' % (n, E),
            'built-from-the-listed-dicts': (
                'all(implies(0 <= t and t < %s and 0 <= k and k < len(listed_components(%s[t])), '
                'let(d=listed_components(%s[t])[k], c=cklog()[len(old(cklog())) + place(offs, t) + k], '
                'body=c == ck(d.type, listed_args(d), listed_kwargs(d), '
                'cecomps()[len(old(cecomps())) + t][k]))) for t in Int for k in Int)' % (n, E, E)),
        }
    OFFS = TScalar(z3.ArraySort(z3.IntSort(), z3.IntSort()))
    C(MW + 'populate_world_from_dict', params=dict(world=World, world_dict=WD), props=['C15'],
      requires=['world != None', 'wf(world)', 'world_dict != None',
                # shape of a description: the lists hold dictionaries
                'all(implies(0 <= j and j < %s, %s[j] != None) for j in Int)' % (np_, P),
                'all(implies(0 <= t and t < %s, %s[t] != None and all(implies(0 <= k and '
                'k < len(listed_components(%s[t])), listed_components(%s[t])[k] != None) for k in Int)) '
                'for t in Int)' % (ne_, E, E, E)],
      modifies=WSTATE + LOGS, open_effect=True, rely=['world'],
      ghost_results={'offs': ('named', 'offs', OFFS), 'off': ('named', 'off', TInt)},
      ensures={
          'wf': 'wf(world)',
          # exactly one construction per listed processor, with its listed type and packs, handed to
          # add_processor(world, it) with the default priority, in the listed order
          'processors-built-and-added-in-order': procs_done % (np_, np_, np_),
          # per listed entity one create_entity(world, *made, entity_id=listed id or None) whose
          # components are exactly the objects built from the listed component dictionaries, in order
          **{'entities-' + k_: v_ for k_, v_ in ents_clauses(ne_).items()},
          'no-other-construction': 'len(cklog()) == len(old(cklog())) + off',
          'what-load-relies-on': 'world._dispatch_enabled == old(world._dispatch_enabled)',
      },
      raises={'$OtherException': {'from-a-listed-type-or-a-callback': 'True'}})
    spec.sites['populate_world_from_dict'] = {'reenter': False, 'check_wf': False}
    HAV = WSTATE + LOGS
    spec.loop(MW + 'populate_world_from_dict', 0, index='i', seq='ps', invariants={
        'wf': 'wf(world)',
        'same-list': 'ps == %s' % P,
        'flag': 'world._dispatch_enabled == old(world._dispatch_enabled)',
        'built-so-far': procs_done % ('i', 'i', 'i'),
        'entities-not-yet': 'cklog() == old(cklog()) and ceworld() == old(ceworld()) and '
                            'ceids() == old(ceids()) and cecomps() == old(cecomps())',
    }, havoc=HAV, vars={'processor_dict': PD})

    def offs_step(X, now, env_head):
        offs0 = deref(now['offs']).t
        i0 = X.num(now['i'])
        return ZV(z3.Store(offs0, i0, X.num(now['off'])))
    spec.loop(MW + 'populate_world_from_dict', 1, index='i', seq='es', invariants={
        'wf': 'wf(world)',
        'same-list': 'es == %s' % E,
        'flag': 'world._dispatch_enabled == old(world._dispatch_enabled)',
        'processors-done': procs_done % (np_, np_, np_),
        **{'created-so-far-' + k_: v_ for k_, v_ in ents_clauses('i').items()},
        'constructions-so-far': 'len(cklog()) == len(old(cklog())) + off and off >= 0',
        'offsets-below': 'all(implies(0 <= t and t < i, 0 <= place(offs, t) and '
                         'place(offs, t) + len(listed_components(es[t])) <= off) for t in Int)',
    }, havoc=HAV, vars={'entity_dict': ED, 'entity_id': Ent, 'components': TList(Comp), 'component_dict': CD,
                        'args': EV.ArgPack, 'kwargs': EV.KwPack},
        ghost={'off': (TInt, '0', 'off + len(listed_components(es[i]))'),
               'offs': (OFFS, lambda X, env: ZV(z3.Const(X.fresh_name('offs0'), OFFS.sort)), offs_step)})
    spec.loop(MW + 'populate_world_from_dict', 2, index='k', seq='cs', invariants={
        'same-list': 'cs == listed_components(entity_dict)',
        'built-so-far': ('len(components) == k and len(cklog()) == len(old(cklog())) + off + k and '
                         'is_prefix(old(cklog()), cklog()) and '
                         'all(implies(0 <= m and m < k, let(c=cklog()[len(old(cklog())) + off + m], '
                         'body=c == ck(cs[m].type, listed_args(cs[m]), listed_kwargs(cs[m]), components[m]))) '
                         'for m in Int)'),
        'earlier-constructions-kept': 'all(implies(0 <= m and m < len(old(cklog())) + off, '
                                      'cklog()[m] == ENTRY_cklog[m]) for m in Int)',
    }, havoc=['ghost:cklog', 'ghost:alloc_Comp', 'ghost:alive', 'ghost:log', 'ghost:cnt'],
        vars={'component_dict': CD, 'args': EV.ArgPack, 'kwargs': EV.KwPack, 'components': TList(Comp)},
        entry={'ENTRY_cklog': 'cklog()'})


_reg_model1 = register


def register(spec):     # noqa: F811
    _reg_model1(spec)
    register_populate(spec)
