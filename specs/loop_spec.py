"""Contracts for desper/loop.py: C14 (exact time deltas, clean Quit) and C13
(world switching).

Ghost sequences: `tlog` = readings of the time function, `wplog` = the
(world, dt) of every World.process invocation made by the loop."""
import z3

from pyvc import theory as T, prelude
from pyvc.sym import forall
from pyvc.sym import (Con, ZV, TupV, ListV, TScalar, TBool, TInt, TReal, TList, TSort, TOpt, usort,
                      none_of, deref, NONE)
from pyvc.exec import OpenFn, BoundMethod, Builtin, ClassLevel, ExcV, PyRaise, ClassV
from . import events_spec as EV, world_spec as WS, tree_spec as TS

L = 'desper.loop.'
Loop = TSort('Loop')
World = WS.World
Handle = TS.Handle
WP = T.TTupleSort('WP', [('wp_w', World), ('wp_dt', TReal)])
QUIT, SWITCH = L + 'Quit', L + 'SwitchWorld'


def declare(spec):
    if getattr(spec, '_loop_common', False):
        return
    spec._loop_common = True
    WS.declare(spec)
    TS.declare(spec)
    T.declare_injection('World', 'Res')
    spec.sort_name('Loop')
    spec.sort_name('WP', WP.sort)
    Lk = spec.klass(L + 'SimpleLoop', 'Loop', fields=dict(
        _current_world=World, _current_world_handle=Handle, running=TBool,
        time_function=TSort('TimeFn'), last_timestamp=TOpt(TReal)))
    Lk.default_truthiness = True
    spec.klass(None, 'TimeFn')
    T.declare_class_of('Loop', L + 'SimpleLoop')
    spec.ghost_decls['tlog'] = TList(TReal)
    spec.ghost_decls['wplog'] = TList(WP)

    def glist(name):
        def fn(X):
            if name not in X.ghost:
                spec.havoc_ghost(X, name)
            return X.ghost[name]
        return fn
    spec.ghost_decls['nraised'] = TInt

    def nraised(X):
        if 'nraised' not in X.ghost:
            spec.havoc_ghost(X, 'nraised')
        return ZV(X.num(X.ghost['nraised']))
    spec.define('nraised', nraised)
    spec.define('tlog', glist('tlog'))
    spec.define('wplog', glist('wplog'))
    spec.define('wp', lambda X, w, dt: ZV(WP.make([w, ZV(T._coerce(dt, z3.RealSort()))])))
    spec.define('wp_w', lambda X, x: ZV(WP.dt.wp_w(deref(x).t)))
    spec.define('wp_dt', lambda X, x: ZV(WP.dt.wp_dt(deref(x).t)))

    # self.time_function(): a reading of the clock (open call, no re-entry)
    prev = getattr(spec, 'call_object_hook', None)

    def call_obj(X, f, args, kwargs, node):
        if f.t.sort().name() == 'TimeFn':
            r = X.fresh(TReal, 'reading')
            tl = glist('tlog')(X)
            X.ghost['tlog'] = ListV(tl.E, tl.n + 1, [z3.Store(tl.ats[0], tl.n, r.t)])
            X.events.append(('open', 'time_function', r))
            return r
        return prev(X, f, args, kwargs, node)
    spec.call_object_hook = call_obj
    # exceptions user code raises by design
    spec.expand_other = [QUIT, SWITCH, '$OtherException']
    spec.exc_field_types = {(SWITCH, 'world_handle'): Handle, (SWITCH, 'clear_current'): TBool,
                            (SWITCH, 'clear_next'): TBool}
    spec.global_override[('desper', 'default_loop')] = lambda X: ZV(z3.Const('default_loop', Loop.sort))


def register(spec):
    declare(spec)
    WS.register(spec)
    TS.register(spec)
    C = spec.contract
    # World.process as called by the loop: record (world, dt)
    spec.contracts[WS.W + 'process'].log_invocation = ('wplog', 'wp(self, dt)')
    spec.contracts[WS.W + 'process'].raises.setdefault('$OtherException', [])
    # what a processor raises on purpose reaches the loop as such: Quit ends it, SwitchWorld is
    # caught and served (one path each, with the exceptional postcondition of process)
    spec.contracts[WS.W + 'process'].expand_other = [QUIT]

    q = L + 'SimpleLoop.'
    # dt of the k-th process call since this start: 0 first, then consecutive differences
    exact = ('len(wplog()) - len(old(wplog())) <= len(tlog()) - len(old(tlog())) and '
             'len(tlog()) - len(old(tlog())) <= len(wplog()) - len(old(wplog())) + 1 and '
             'is_prefix(old(wplog()), wplog()) and is_prefix(old(tlog()), tlog()) and '
             'all(implies(0 <= k and k < len(wplog()) - len(old(wplog())), '
             'wp_dt(wplog()[len(old(wplog())) + k]) == (0 if k == 0 else '
             'tlog()[len(old(tlog())) + k] - tlog()[len(old(tlog())) + k - 1])) for k in Int)')
    stamp = ('(self.last_timestamp == None) == (len(tlog()) == len(old(tlog()))) and '
             'implies(len(tlog()) > len(old(tlog())), self.last_timestamp == tlog()[len(tlog()) - 1])')
    loop_exits = {
        'exact-dt': exact,
        'stamp-is-last-reading': stamp,
    }
    C(q + 'loop', params=dict(self=Loop), props=['C14'],
      requires=['self.last_timestamp == None', 'self._current_world != None',
                'wf(self._current_world)'],
      modifies=['self.last_timestamp', 'self._current_world', 'self._current_world_handle',
                'ghost:tlog', 'ghost:wplog'], open_effect=True,
      ensures={'never-returns-normally': 'False'},
      raises={QUIT: dict(loop_exits), '$OtherException': dict(loop_exits), 'KeyError': dict(loop_exits)})
    spec.loop(q + 'loop', 0, invariants={
        'exact-dt': exact,
        'stamp-is-last-reading': stamp,
        'one-process-per-reading': 'len(wplog()) - len(old(wplog())) == len(tlog()) - len(old(tlog()))',
        'world': 'self._current_world != None and wf(self._current_world)',
    }, havoc=['self.last_timestamp', 'self._current_world', 'self._current_world_handle',
              'ghost:tlog', 'ghost:wplog', 'World._components', 'World._entities',
              'World._dead_entities', 'World._never', 'World._events', 'World._handlers', 'World._event_queue',
              'World._dispatch_enabled', 'World._sorted_processors', 'World._processors',
              'World.id_generator', 'World.id_generator_factory',
              'Handle._cache', 'Handle._cached', 'ghost:log', 'ghost:cnt', 'ghost:plog',
              'ghost:dlog', 'ghost:alive'],
        vars={'timestamp': TReal, 'dt': TReal})

    C(q + 'start', params=dict(self=Loop), props=['C14'],
      requires=['self.last_timestamp == None', 'self._current_world != None',
                'wf(self._current_world)'],
      modifies=['self.last_timestamp', 'self._current_world', 'self._current_world_handle',
                'self.running', 'ghost:tlog', 'ghost:wplog'], open_effect=True,
      ensures={'quit-returns-normally': 'not self.running',
               'first-dt-zero-after-restart': 'self.last_timestamp == None',
               'exact-dt': exact},
      raises={'$OtherException': {'not-running': 'not self.running',
                                  'first-dt-zero-after-restart': 'self.last_timestamp == None',
                                  'exact-dt': exact},
              'KeyError': {'not-running': 'not self.running',
                           'first-dt-zero-after-restart': 'self.last_timestamp == None'}})
    C(L + 'Loop.start', params=dict(self=Loop), props=['C14'],
      requires=['self.last_timestamp == None', 'self._current_world != None',
                'wf(self._current_world)'],
      modifies=['self.last_timestamp', 'self._current_world', 'self._current_world_handle',
                'self.running', 'ghost:tlog', 'ghost:wplog'], open_effect=True,
      ensures={'quit-returns-normally': 'not self.running', 'exact-dt': exact,
               'stamp-is-last-reading': stamp},
      raises={'$OtherException': {'not-running': 'not self.running', 'exact-dt': exact,
                                  'stamp-is-last-reading': stamp},
              'KeyError': {'not-running': 'not self.running', 'stamp-is-last-reading': stamp}})




def register_quit(spec):
    C = spec.contract
    eff = 'target if target != None else default_loop._current_world'
    C(L + 'quit_loop', params=dict(target=World), props=['C14'],
      requires=['default_loop != None', 'implies(target != None, wf(target, "Disp"))',
                'implies(default_loop._current_world != None, wf(default_loop._current_world, "Disp"))'],
      modifies=['ghost:dlog', 'ghost:log', 'ghost:cnt'], open_effect=True, rely=['target'],
      ensures={'never-returns-normally': 'False'},
      raises={QUIT: {
          'on_quit-dispatched-once-first': (
              "implies((%s) != None, len(dlog()) == len(old(dlog())) + 1 and "
              "dlog()[len(old(dlog()))] == qe('on_quit', pack(), kw_empty()))" % eff),
          'nothing-dispatched-without-a-world': 'implies((%s) == None, dlog() == old(dlog()))' % eff,
          # Quit is what ends the call only if delivering on_quit did not fail: an exception of a
          # listener propagates instead (it is not replaced by Quit)
          'no-exception-replaced-by-quit': 'nraised() == old(nraised())'},
          '$OtherException': {'from-a-listener-of-on_quit': '(%s) != None' % eff}})
    spec.define('default_loop', lambda X: ZV(z3.Const('default_loop', Loop.sort)))
    spec.spec_names['default_loop'] = ZV(z3.Const('default_loop', Loop.sort))


_reg_loop0 = register


def register(spec):     # noqa: F811
    _reg_loop0(spec)
    register_quit(spec)


def register_switch(spec):
    """C13: contracts of switch(), Loop.switch, SimpleLoop.switch and the ghost-client
    lemma tying them together (specs/lemmas_loop.py)."""
    C = spec.contract
    Rk = spec.sort_classes['Res']
    as_world = lambda t: T._coerce(ZV(t), World.sort)      # noqa: E731
    spec.define('as_world', lambda X, r: ZV(T._coerce(r, World.sort)))
    spec.define('as_res', lambda X, w: ZV(T._coerce(w, TS.Res.sort)))

    # a loaded resource used as a world: attribute access goes through the projection
    for attr in ('dispatch', 'dispatch_enabled', 'process'):
        Rk.attr_hooks[attr] = (lambda attr: lambda X, obj, node: X.get_attr(ZV(as_world(obj.t)), attr, node))(attr)
    Rk.attr_store_hooks['dispatch_enabled'] = \
        lambda X, obj, v, node: X.set_attr(ZV(as_world(obj.t)), 'dispatch_enabled', v, node)
    spec.isinstance_hooks[('Res', 'World')] = lambda X, v: as_world(v.t) != none_of(World.sort)

    q = L + 'Loop.'
    sw_post = {
        'enters-the-handle': 'self._current_world_handle == world_handle',
        'a-world-is-current': 'self._current_world != None',
        'enters-the-cached-instance': (
            'implies(old(world_handle._cached) and not clear_next and not '
            '(clear_current and old(self._current_world_handle) == world_handle), '
            'self._current_world == as_world(old(world_handle._cache)))'),
        'current-world-is-what-the-handle-holds': (
            'world_handle._cached and self._current_world == as_world(world_handle._cache)'),
        'no-reload-of-a-cached-target': (
            'implies(old(world_handle._cached) and not clear_next and not '
            '(clear_current and old(self._current_world_handle) == world_handle), '
            'world_handle._cache == old(world_handle._cache) and '
            'cnt(call_load(world_handle)) == old(cnt(call_load(world_handle))))'),
        'fresh-instance-when-cleared': (
            'implies(clear_next or (clear_current and old(self._current_world_handle) == world_handle) '
            'or not old(world_handle._cached), '
            'cnt(call_load(world_handle)) == old(cnt(call_load(world_handle))) + 1)'),
        'left-handle-cleared': (
            'implies(clear_current and old(self._current_world_handle) != None and '
            'old(self._current_world_handle) != world_handle, '
            'not old(self._current_world_handle)._cached)'),
    }
    for cls in ('Loop', 'SimpleLoop'):
        C(L + cls + '.switch', params=dict(self=Loop, world_handle=Handle, clear_current=TBool,
                                           clear_next=TBool), props=['C13', 'C12'],
          requires=['world_handle != None'] + (
              ['all(implies(w != None, wf(w, "Disp")) for w in World)'] if cls == 'SimpleLoop' else []),
          modifies=['self._current_world', 'self._current_world_handle', 'Handle._cache',
                    'Handle._cached', 'ghost:log', 'ghost:cnt'] + (
              ['ghost:dlog'] if cls == 'SimpleLoop' else []),
          open_effect=(cls == 'SimpleLoop'), rely=[],
          ensures=(dict(sw_post) if cls == 'Loop' else {
              # the release may run callbacks (which may load other handles): only the
              # loop's own state is claimed after it
              'enters-the-handle': sw_post['enters-the-handle'],
              'a-world-is-current': sw_post['a-world-is-current'],
              'current-world-is-what-the-handle-holds': sw_post['current-world-is-what-the-handle-holds'],
              'enters-the-cached-instance': (
                  'implies(old(world_handle._cached) and not clear_next and not '
                  '(clear_current and old(self._current_world_handle) == world_handle), '
                  'self._current_world == as_world(old(world_handle._cache)))'),
              'entered-world-released': ('len(self._current_world._event_queue) == 0 or '
                                         'not self._current_world._dispatch_enabled'),
          }),
          raises={'AssertionError': {'target-is-not-a-world': 'True'},
                  '$OtherException': {'from-load-or-a-released-callback': 'True'}})


_reg_loop1 = register


def register(spec):     # noqa: F811
    _reg_loop1(spec)
    register_switch(spec)


def register_switch_fn(spec):
    C = spec.contract
    frm = '(from_world if from_world != None else default_loop._current_world)'
    to = 'as_world(target_handle._cache)'
    in_entry = "qe('on_switch_in', pack(%s, target_handle._cache), kw_empty())" % frm
    C(L + 'switch', params=dict(target_handle=Handle, clear_current=TBool, clear_next=TBool,
                                from_world=World), props=['C13'],
      requires=['default_loop != None', 'target_handle != None',
                'all(implies(w != None, wf(w, "Disp")) for w in World)'],
      modifies=['Handle._cache', 'Handle._cached', 'World._events', 'World._handlers',
                'World._event_queue', 'World._dispatch_enabled', 'World._components',
                'World._entities', 'World._dead_entities', 'World._never', 'World._sorted_processors',
                'World._processors', 'World.id_generator', 'World.id_generator_factory',
                'ghost:log', 'ghost:cnt', 'ghost:dlog', 'ghost:alive'],
      ensures={'never-returns-normally': 'False'},
      raises={SWITCH: {
          'request-carries-the-arguments': ('exc.world_handle == target_handle and '
                                            'exc.clear_current == clear_current and '
                                            'exc.clear_next == clear_next'),
          'target-loaded-and-muted': ('target_handle._cached and %s != None and '
                                      'not %s._dispatch_enabled' % (to, to)),
          'on_switch_in-queued-last-in-the-loaded-instance': (
              "implies('on_switch_in' in %s._events, len(%s._event_queue) >= 1 and "
              "%s._event_queue[len(%s._event_queue) - 1] == %s)" % (to, to, to, to, in_entry)),
          'left-world-muted': 'implies(%s != None, not %s._dispatch_enabled)' % (frm, frm),
          'all-dispatchers-consistent': 'all(implies(w != None, wf(w, "Disp")) for w in World)',
      }, 'AttributeError': {'target-is-not-a-world': 'True'},
          '$OtherException': {'from-load-or-an-on_switch_out-listener': 'True'}})
    Hd = TS.Handle
    for name in ('in_reaches_entered_instance', 'in_reaches_entered_instance_clear_current',
                 'in_reaches_entered_instance_clear_next',
                 'in_reaches_entered_instance_restart_current'):
        spec.lemma('specs/lemmas_loop.py', name, params=dict(loop=Loop, h=Hd, frm=World),
                   props=['C13'],
                   requires=['default_loop != None', 'loop != None', 'h != None',
                             'all(implies(w != None, wf(w, "Disp")) for w in World)'],
                   open_effect=True,
                   raises={'$OtherException': {'from-user-code': 'True'},
                           'AssertionError': {'target-is-not-a-world': 'True'},
                           'AttributeError': {'target-is-not-a-world': 'True'}})


_reg_loop2 = register


def register(spec):     # noqa: F811
    _reg_loop2(spec)
    register_switch_fn(spec)
