"""C15: the argument transformers of desper/model/world.py - the two nested
`map_function`s and `type_dict_transformer`.

An argument value is an object of sort JV (any JSON value or Python object): `is_str(v)`
says whether it is a string and `sval(v)` is its text (a z3 string).  The compiled
patterns are read from the real assignments `X_REGEX = re.compile(r'...')` on every
run and translated into z3 regular expressions (supported shape: literal, one `(.+)`
group, literal).  Assumed about `re` (listed in the evidence): `Pattern.match(s)` is not
None iff a prefix of s is in the language; for a string that starts with the literal
prefix, ends with the literal suffix and has no newline in between, the single group is
exactly the text in between (greedy `.+` up to the last closing brace).  Everything else
(`object_from_string`, the resource tree look-ups, `str.split`/`str.join`) is an
uninterpreted function of its arguments."""
import ast
import z3

from pyvc import theory as T, prelude
from pyvc.sym import (Con, ZV, TupV, ListV, TScalar, TBool, TInt, TSort, usort, none_of, deref, NONE)
from pyvc.exec import Builtin, ClassV
from pyvc.spec import SpecError

MW = 'desper.model.world.'
JV = TSort('JV')
Regex = TSort('Regex')
Match = TSort('Match')
RootMap = TSort('RootMap')
Parts = TSort('Parts')
S = z3.StringSort()


def parse_pattern(pat):
    """r'\\$\\{(.+)\\}' -> ('${', '}')"""
    i, out, cur, seen_group = 0, [], '', False
    while i < len(pat):
        c = pat[i]
        if pat.startswith('(.+)', i):
            if seen_group:
                raise SpecError('regex %r: more than one group' % pat)
            seen_group = True
            out.append(cur)
            cur = ''
            i += 4
            continue
        if c == '\\':
            if i + 1 >= len(pat) or pat[i + 1].isalnum():
                raise SpecError('regex %r: escape outside the supported subset' % pat)
            cur += pat[i + 1]
            i += 2
            continue
        if c in '.^$*+?{}[]|()':
            raise SpecError('regex %r: construct outside the supported subset' % pat)
        cur += c
        i += 1
    out.append(cur)
    if not seen_group:
        raise SpecError('regex %r: no (.+) group' % pat)
    return out[0], out[1]


def declare(spec):
    if getattr(spec, '_tf_common', False):
        return
    spec._tf_common = True
    for n in ('JV', 'Regex', 'Match', 'RootMap', 'Parts'):
        spec.sort_name(n)
    Jk = spec.klass(None, 'JV')
    Rk = spec.klass(None, 'Regex')
    Mk = spec.klass(None, 'Match')
    RMk = spec.klass(None, 'RootMap')
    spec.klass(None, 'Parts')
    IS_STR = z3.Function('jv_is_str', JV.sort, z3.BoolSort())
    SVAL = z3.Function('jv_text', JV.sort, S)
    GRP = z3.Function('match_group1', Match.sort, S)
    OBJ = z3.Function('object_from_string', S, JV.sort)
    RES = z3.Function('resource_at', RootMap.sort, S, JV.sort)
    HND = z3.Function('handle_at', RootMap.sort, S, JV.sort)
    PARTS = z3.Function('str_split', S, S, Parts.sort)
    JOINED = z3.Function('str_join', S, Parts.sort, S)
    spec.isinstance_hooks = getattr(spec, 'isinstance_hooks', {})
    spec.isinstance_hooks[('JV', 'str')] = lambda X, v: IS_STR(v.t)

    nl = z3.Re('\n')
    anyc = z3.AllChar(z3.ReSort(S))
    dot = z3.Diff(anyc, nl)

    # ---- the compiled patterns, from the real source
    mod = spec.repo.modules['desper.model.world']
    patterns = {}
    for name in ('OBJECT_STRING_REGEX', 'RESOURCE_STRING_REGEX', 'HANDLE_STRING_REGEX'):
        g = mod.globals.get(name)
        ok = isinstance(g, ast.Call) and isinstance(g.func, ast.Attribute) and g.func.attr == 'compile' \
            and len(g.args) == 1 and isinstance(g.args[0], ast.Constant) and isinstance(g.args[0].value, str)
        if not ok:
            raise SpecError('%s is not re.compile(<literal>)' % name)
        patterns[name] = parse_pattern(g.args[0].value)
        const = z3.Const('rx_' + name, Regex.sort)
        spec.global_override[('desper.model.world', name)] = (lambda c: lambda X: ZV(c))(const)
    spec.extra_global_axioms = getattr(spec, 'extra_global_axioms', []) + [
        z3.Const('rx_' + n, Regex.sort) != none_of(Regex.sort) for n in patterns] + [
        z3.Distinct(*[z3.Const('rx_' + n, Regex.sort) for n in patterns])]
    spec._tf_patterns = patterns
    by_const = {('rx_' + n): p for n, p in patterns.items()}

    def lang(pre, suf, anchored):
        core = z3.Concat(z3.Re(pre), z3.Plus(dot), z3.Re(suf), z3.Star(anyc))
        return core if anchored else z3.Concat(z3.Star(anyc), core)

    def exact(s, pre, suf):
        mid = z3.SubString(s, len(pre), z3.Length(s) - len(pre) - len(suf))
        return z3.And(z3.PrefixOf(z3.StringVal(pre), s), z3.SuffixOf(z3.StringVal(suf), s),
                      z3.Length(s) >= len(pre) + len(suf) + 1,
                      z3.Not(z3.Contains(mid, z3.StringVal('\n')))), mid

    def matcher(anchored):
        def hook(X, obj, node):
            def fn(X, args, kw, node):
                if str(obj.t) not in by_const:
                    X.unsupported('match on an unknown pattern object', node)
                pre, suf = by_const[str(obj.t)]
                a = deref(args[0])
                if not (isinstance(a, ZV) and a.t.sort() == JV.sort):
                    X.unsupported('pattern applied to %r' % (a,), node)
                s = SVAL(a.t)
                m = z3.Const(X.fresh_name('match'), Match.sort)
                X.assume((m != none_of(Match.sort)) == z3.And(IS_STR(a.t), z3.InRe(s, lang(pre, suf, anchored))))
                if anchored:
                    ex, mid = exact(s, pre, suf)
                    X.assume(z3.Implies(z3.And(IS_STR(a.t), ex), z3.And(m != none_of(Match.sort), GRP(m) == mid)))
                return ZV(m)
            return Builtin('Pattern.match' if anchored else 'Pattern.search', fn)
        return hook
    Rk.attr_hooks['match'] = matcher(True)
    Rk.attr_hooks['search'] = matcher(False)
    Rk.attr_hooks['fullmatch'] = matcher(True)
    spec.note_assumption('re: Pattern.match(s) is not None iff a prefix of s is in the language of the pattern '
                         '(translated from the real pattern string; search: some substring); for s = prefix + n + '
                         'suffix with n non-empty and newline-free the group of `(.+)` is n')

    def groups_hook(X, obj, node):
        def fn(X, args, kw, node):
            g = z3.Const(X.fresh_name('group'), JV.sort)
            X.assume(z3.And(g != none_of(JV.sort), IS_STR(g), SVAL(g) == GRP(obj.t)))
            return TupV([ZV(g)])
        return Builtin('Match.groups', fn)
    Mk.attr_hooks['groups'] = groups_hook

    # str methods on a JSON string value
    def split_hook(X, obj, node):
        def fn(X, args, kw, node):
            sep = deref(args[0])
            if not (isinstance(sep, Con) and isinstance(sep.v, str)):
                X.unsupported('str.split with a computed separator', node)
            return ZV(PARTS(SVAL(obj.t), z3.StringVal(sep.v)))
        return Builtin('str.split', fn)
    Jk.attr_hooks['split'] = split_hook

    def str_join(X, sep, seq, node):
        sep, seq = deref(sep), deref(seq)
        if isinstance(sep, Con) and isinstance(sep.v, str) and isinstance(seq, ZV) and seq.t.sort() == Parts.sort:
            k = z3.Const(X.fresh_name('joined'), JV.sort)
            X.assume(z3.And(k != none_of(JV.sort), IS_STR(k), SVAL(k) == JOINED(z3.StringVal(sep.v), seq.t)))
            return ZV(k)
        X.unsupported('str.join with symbolic parts', node)
    spec.str_join = str_join
    RMk.attr_hooks['split_char'] = lambda X, obj, node: Con('/')
    spec.note_assumption("ResourceMap.split_char is '/' (class attribute, not reassigned)")

    def obj_from_string(X):
        def fn(X, args, kw, node):
            a = deref(args[0])
            return ZV(OBJ(SVAL(a.t)))
        return Builtin('object_from_string', fn)
    spec.externals['desper.model.world.object_from_string'] = obj_from_string
    spec.global_override[('desper.model.world', 'object_from_string')] = obj_from_string

    prev_gi = getattr(spec, 'getitem_object_hook', None)

    def getitem(X, c, k, node):
        if c.t.sort().name() == 'RootMap':
            kk = deref(k)
            # root_map[key]: the loaded resource, KeyError if nothing is there
            if X.choose([True, True]) == 1:
                X.raise_('KeyError', 'no such resource', node=node)
            return ZV(RES(c.t, SVAL(kk.t)))
        if prev_gi is not None:
            return prev_gi(X, c, k, node)
        X.unsupported('subscript of object %r' % (c,), node)
    spec.getitem_object_hook = getitem
    RMk.attr_hooks['get'] = lambda X, obj, node: Builtin(
        'ResourceMap.get', lambda X, a, k, n: ZV(HND(obj.t, SVAL(deref(a[0]).t))))

    # ---- spec vocabulary
    def lit(v):
        v = deref(v)
        if not (isinstance(v, Con) and isinstance(v.v, str)):
            raise SpecError('string literal expected')
        return v.v
    spec.define('is_str', lambda X, v: ZV(IS_STR(deref(v).t)))
    spec.define('starts', lambda X, v, p: ZV(z3.PrefixOf(z3.StringVal(lit(p)), SVAL(deref(v).t))))
    spec.define('exact', lambda X, v, p, s_: ZV(exact(SVAL(deref(v).t), lit(p), lit(s_))[0]))
    spec.define('obj_of_middle', lambda X, v, p, s_: ZV(OBJ(exact(SVAL(deref(v).t), lit(p), lit(s_))[1])))

    def key_of_middle(v, p, s_):
        mid = exact(SVAL(deref(v).t), lit(p), lit(s_))[1]
        return JOINED(z3.StringVal('/'), PARTS(mid, z3.StringVal('.')))
    spec.define('res_of_middle', lambda X, root, v, p, s_: ZV(RES(deref(root).t, key_of_middle(v, p, s_))))
    spec.define('hnd_of_middle', lambda X, root, v, p, s_: ZV(HND(deref(root).t, key_of_middle(v, p, s_))))


def register(spec):
    declare(spec)
    C = spec.contract
    # the three forms as the PROPERTY states them (the patterns in the code define what
    # `match` accepts; the clauses below do not read them)
    O, R, H = ('${', '}'), ('$res{', '}'), ('$handle{', '}')

    def q(s):
        return repr(s)
    C(MW + 'object_dict_transformer.<locals>.map_function', params=dict(arg=JV), props=['C15'], returns=JV,
      requires=['arg != None'],
      ensures={
          'non-strings-pass-through': 'implies(not is_str(arg), result == arg)',
          'strings-not-beginning-with-the-marker-pass-through':
              'implies(is_str(arg) and not starts(arg, %s), result == arg)' % q(O[0]),
          'object-reference-replaced-by-the-named-object':
              'implies(is_str(arg) and exact(arg, %s, %s), result == obj_of_middle(arg, %s, %s))'
              % (q(O[0]), q(O[1]), q(O[0]), q(O[1])),
      })
    C(MW + 'resource_dict_transformer.<locals>.map_function', params=dict(arg=JV), props=['C15'], returns=JV,
      closure_params=dict(root_map=RootMap), requires=['arg != None', 'root_map != None'],
      ensures={
          'non-strings-pass-through': 'implies(not is_str(arg), result == arg)',
          'strings-beginning-with-neither-marker-pass-through':
              'implies(is_str(arg) and not starts(arg, %s) and not starts(arg, %s), result == arg)'
              % (q(R[0]), q(H[0])),
          'resource-reference-replaced-by-the-loaded-resource':
              'implies(is_str(arg) and exact(arg, %s, %s), result == res_of_middle(root_map, arg, %s, %s))'
              % (q(R[0]), q(R[1]), q(R[0]), q(R[1])),
          'handle-reference-replaced-by-the-handle':
              'implies(is_str(arg) and exact(arg, %s, %s), result == hnd_of_middle(root_map, arg, %s, %s))'
              % (q(H[0]), q(H[1]), q(H[0]), q(H[1])),
      },
      raises={'KeyError': {'only-for-a-resource-reference': 'is_str(arg) and starts(arg, %s)' % q(R[0])}})

