"""C20 — contracts for desper/logic/spatial.py.

A setter stores the value and notifies through the matching event with the value
a read of the property returns right afterwards.  Listeners are assumed not to
write the transform they are being notified about (site assumption)."""
import z3

from pyvc import theory as T
from pyvc.sym import (Con, ZV, TupV, TScalar, TBool, TReal, TTuple, TSort, usort, deref)
from . import events_spec as EV
from .math_spec import vec

SP = 'desper.logic.spatial.'


def register(spec):
    EV.declare_common(spec)
    if 'desper.events.EventDispatcher' not in spec.class_by_qual:
        D = spec.klass('desper.events.EventDispatcher', 'Disp', fields=EV.DISP_FIELDS)
        EV.add_dispatcher_invariants(D)
        EV.register_dispatcher_contracts(spec, 'Disp')
    D = spec.class_by_qual['desper.events.EventDispatcher']
    V2 = TTuple([TReal, TReal], cls='desper.math.Vec2')
    V3 = TTuple([TReal, TReal, TReal], cls='desper.math.Vec3')
    T2 = spec.klass(SP + 'Transform2D', 'Transform2D', parent=D,
                    fields=dict(_position=V2, _rotation=TReal, _scale=V2))
    T3 = spec.klass(SP + 'Transform3D', 'Transform3D', parent=D,
                    fields=dict(_position=V3, _rotation=V3, _scale=V3))
    for k in (T2, T3):
        # listeners do not write the transform they are notified about
        k.client_fields = list(EV.DISP_FIELDS)
        spec.sort_name(k.sort_name)
    spec.note_assumption('Transform setters: listeners of on_*_change do not assign the properties '
                         'of the transform that is notifying them')
    C = spec.contract
    EVENTS = {'position': 'on_position_change', 'rotation': 'on_rotation_change',
              'scale': 'on_scale_change'}
    for cls, kl, n in (('Transform2D', T2, 2), ('Transform3D', T3, 3)):
        S = TSort(kl.sort_name)
        q = SP + cls + '.'
        for prop, ev in EVENTS.items():
            is_real = (cls == 'Transform2D' and prop == 'rotation')
            vt = (lambda X, nme: ZV(z3.Real(nme))) if is_real else vec('Vec%d' % n, n)
            C(q + prop, params=dict(self=S), props=['C20'],
              ensures={'reads-the-stored-value': 'result == self._%s' % prop})
            stored = ('self._rotation == value - 360 * floor_div(value, 360) and '
                      '0 <= self._rotation and self._rotation < 360') if is_real \
                else 'self._%s == value' % prop
            C(q + prop + '.setter', params=dict(self=S, value=vt), props=['C20'],
              requires=["wf(self, 'Disp')"],
              modifies=['self._' + prop, 'ghost:log', 'ghost:cnt', 'ghost:dlog'], open_effect=True,
              ensures={
                  'stores': stored,
                  'notifies-once-with-the-stored-value': (
                      "len(dlog()) == len(old(dlog())) + 1 and is_prefix(old(dlog()), dlog()) and "
                      "dlog()[len(old(dlog()))] == qe('%s', pack(self.%s), kw_empty())" % (ev, prop)),
                  'other-properties-untouched': ' and '.join(
                      'self._%s == old(self._%s)' % (o, o) for o in EVENTS if o != prop),
              },
              raises={'$OtherException': {'stores': stored}})
        # construction
        if cls == 'Transform2D':
            params = dict(self=S, position=vec('Vec2', 2), rotation=lambda X, nme: ZV(z3.Real(nme)),
                          scale=vec('Vec2', 2))
            stored = ('self._position == position and self._scale == scale and '
                      'self._rotation == rotation - 360 * floor_div(rotation, 360) and '
                      'type(self._position) is dmath.Vec2 and type(self._scale) is dmath.Vec2')
        else:
            params = dict(self=S, position=vec('Vec3', 3), rotation=vec('Vec3', 3), scale=vec('Vec3', 3))
            stored = ('self._position == position and self._rotation == rotation and '
                      'self._scale == scale and type(self._position) is dmath.Vec3')
        C(q + '__init__', params=params, props=['C20'],
          modifies=['self._position', 'self._rotation', 'self._scale', 'self._events',
                    'self._handlers', 'self._event_queue'],
          ensures={'stores-the-given-values': stored, 'dispatcher-ready': "wf(self, 'Disp')",
                   'nothing-notified': 'dlog() == old(dlog())'})

    def floor_div(X, a, b):
        at = T._coerce(a, z3.RealSort())
        bt = T._coerce(b, z3.RealSort())
        return ZV(z3.ToReal(z3.ToInt(at / bt)))
    spec.define('floor_div', floor_div)
