"""Contracts for desper/model/__init__.py (C16): DirectoryPopulatorRule and
DirectoryResourcePopulator.

The file system (os.path, glob) is assumed by contract: uninterpreted predicates
exists / isdir / isfile of a path that do not change during one call, string functions
join / relpath / normpath / splitext / replace as uninterpreted functions.  The resource
map is seen through two operations, `get` (a read of its current state, ghost version
`mver`) and `__setitem__` (recorded in the ghost log `silog`); what those do to the tree
is C11.  What is proved is the contract of ONE listing entry (body_ensures of the inner
loop), for all entries, rules and options: which entries are skipped, which key is
formed, which factory call is made with which arguments, whether a sub-map is created,
whether a layer is pushed to keep an older handle."""
import z3

from pyvc import theory as T, prelude
from pyvc.sym import forall
from pyvc.sym import (Con, ZV, TupV, ListV, SetV, TScalar, TBool, TInt, TReal, TList, TSort, TOpt, TSet, TDict,
                      usort, none_of, deref, NONE, Loc)
from pyvc.exec import OpenFn, BoundMethod, Builtin, ClassLevel, ExcV, PyRaise, ClassV, StarPack
from . import events_spec as EV
from .model_spec import glist, append_ghost

MI = 'desper.model.'
Str = EV.Str
Pop = TSort('Pop')
Rule = TSort('Rule')
HType = TSort('HType')
RMap = TSort('RMap')        # a ResourceMap as the populator sees it
Node = TSort('Node')        # what get() returns: a handle, a sub-map or None
Chain = TSort('Chain')      # ResourceMap.handles (a ChainMap): .maps is the list of layers
LAYER = TDict(Str, Node)
FC = T.TTupleSort('FC', [('fc_t', HType), ('fc_a', EV.ArgPack), ('fc_k', EV.KwPack), ('fc_r', Node)])
SI = T.TTupleSort('SI', [('si_m', RMap), ('si_k', Str), ('si_v', Node)])


def declare(spec):
    if getattr(spec, '_pop_common', False):
        return
    spec._pop_common = True
    EV.declare_common(spec)
    for n, S_ in (('Pop', None), ('Rule', None), ('HType', None), ('RMap', None), ('Node', None), ('Chain', None),
                  ('FC', FC.sort), ('SI', SI.sort)):
        spec.sort_name(n, S_)
    spec.klass(MI + 'DirectoryResourcePopulator', 'Pop', fields=dict(
        root=Str, nest_on_conflict=TBool, trim_extensions=TBool, rules=TList(Rule)))
    Rk = spec.klass(MI + 'DirectoryPopulatorRule', 'Rule', fields=dict(
        directory_path=Str, handle_type=HType, args=EV.ArgPack, file_exts=TSet(Str), kwargs=EV.KwPack))
    spec.klass(None, 'HType')
    Mk = spec.klass(MI + 'tree.ResourceMap', 'RMap', fields=dict(handles=Chain))
    Nk = spec.klass(None, 'Node', fields=dict(parent=RMap, key=Str))
    Ck = spec.klass(None, 'Chain', fields=dict(maps=TList(LAYER)))
    T.declare_injection('RMap', 'Node')
    for g, E in (('falog', FC), ('silog', SI)):
        spec.ghost_decls[g] = TList(E)
        spec.define(g, glist(spec, g))
    spec.ghost_decls['mver'] = TInt
    spec.ghost_decls['alloc_Rule'] = spec.alloc_havoc('Rule')
    spec.ghost_decls['alloc_RMap'] = spec.alloc_havoc('RMap')
    spec.ghost_decls['alloc_Node'] = spec.alloc_havoc('Node')

    def mver(X):
        if 'mver' not in X.ghost:
            spec.havoc_ghost(X, 'mver')
        return X.ghost['mver']
    MGET = z3.Function('mget', z3.IntSort(), RMap.sort, Str.sort, Node.sort)
    spec.define('mget', lambda X, m, k: ZV(MGET(X.num(mver(X)), deref(m).t, deref(k).t)))
    spec.define('fc_t', lambda X, c: ZV(FC.dt.fc_t(deref(c).t)))
    spec.define('fc_a', lambda X, c: ZV(FC.dt.fc_a(deref(c).t)))
    spec.define('fc_k', lambda X, c: ZV(FC.dt.fc_k(deref(c).t)))
    spec.define('fc_r', lambda X, c: ZV(FC.dt.fc_r(deref(c).t)))
    spec.define('si', lambda X, m, k, v: ZV(SI.make([m, k, ZV(T._coerce(v, Node.sort))])))
    spec.define('si_v', lambda X, c: ZV(SI.dt.si_v(deref(c).t)))
    spec.define('si_k', lambda X, c: ZV(SI.dt.si_k(deref(c).t)))
    spec.define('si_m', lambda X, c: ZV(SI.dt.si_m(deref(c).t)))
    spec.define('allocated', lambda X, o: ZV(spec.alloc_array(X, deref(o).t.sort())[deref(o).t]))
    spec.define('as_map', lambda X, n: ZV(T._coerce(n, RMap.sort)))

    # ---- the file system and path strings (assumed)
    def ufun(name, *sorts):
        return z3.Function(name, *sorts)
    S = Str.sort
    JOIN, REL, NORM, REPL = ufun('path_join', S, S, S), ufun('path_rel', S, S, S), ufun('path_norm', S, S), \
        ufun('str_replace', S, S, S, S)
    STEM, EXT = ufun('path_stem', S, S), ufun('path_ext', S, S)
    EXISTS, ISDIR, ISFILE = ufun('fs_exists', S, z3.BoolSort()), ufun('fs_isdir', S, z3.BoolSort()), \
        ufun('fs_isfile', S, z3.BoolSort())
    LISTN, LISTA = ufun('glob_len', S, z3.IntSort()), ufun('glob_at', S, z3.ArraySort(z3.IntSort(), S))

    def s_(v):
        return T._coerce(v, S)

    def b1(fn, name):
        return lambda X: Builtin(name, lambda X, a, k, n: ZV(fn(*[s_(x) for x in a])))
    spec.externals['os.path.join'] = b1(JOIN, 'os.path.join')
    spec.externals['os.path.relpath'] = b1(REL, 'os.path.relpath')
    spec.externals['os.path.normpath'] = b1(NORM, 'os.path.normpath')
    spec.externals['os.path.exists'] = b1(EXISTS, 'os.path.exists')
    spec.externals['os.path.isdir'] = b1(ISDIR, 'os.path.isdir')
    spec.externals['os.path.isfile'] = b1(ISFILE, 'os.path.isfile')
    spec.externals['os.path.sep'] = ZV(z3.Const('path_sep', S))
    spec.externals['os.path.splitext'] = lambda X: Builtin(
        'os.path.splitext', lambda X, a, k, n: TupV([ZV(STEM(s_(a[0]))), ZV(EXT(s_(a[0])))]))

    def iglob(X):
        def fn(X, a, k, n):
            p = s_(a[0])
            X.assume(LISTN(p) >= 0)
            return ListV(Str, LISTN(p), [LISTA(p)])
        return Builtin('glob.iglob', fn)
    spec.externals['glob.iglob'] = iglob
    Sk = spec.sort_classes.get('Str') or spec.klass(None, 'Str')
    Sk.attr_hooks['replace'] = lambda X, obj, node: Builtin(
        'str.replace', lambda X, a, k, n: ZV(REPL(obj.t, s_(a[0]), s_(a[1]))))
    for nm, fn in (('join', JOIN), ('relpath', REL), ('normpath', NORM), ('stem', STEM), ('ext', EXT),
                   ('exists', EXISTS), ('isdir', ISDIR), ('isfile', ISFILE)):
        spec.define(nm, (lambda fn: lambda X, *a: ZV(fn(*[s_(x) for x in a])))(fn))
    spec.define('key_of', lambda X, p, root: ZV(REPL(NORM(REL(s_(p), s_(root))), z3.Const('path_sep', S),
                                                    T._coerce(Con('/'), S))))
    x = z3.Const('fs_p', S)
    y, z_ = z3.Const('fs_q', S), z3.Const('fs_r', S)
    NS = none_of(S)
    jn = z3.Int('fs_j')
    strings_are_strings = [
        z3.ForAll([x, y], JOIN(x, y) != NS, patterns=[JOIN(x, y)]),
        z3.ForAll([x, y], REL(x, y) != NS, patterns=[REL(x, y)]),
        z3.ForAll([x], z3.And(NORM(x) != NS, STEM(x) != NS, EXT(x) != NS), patterns=[NORM(x), STEM(x), EXT(x)]),
        z3.ForAll([x, y, z_], REPL(x, y, z_) != NS, patterns=[REPL(x, y, z_)]),
        z3.ForAll([x, jn], LISTA(x)[jn] != NS, patterns=[LISTA(x)[jn]]),
    ]
    spec.extra_global_axioms = getattr(spec, 'extra_global_axioms', []) + strings_are_strings + [
        z3.ForAll([x], z3.And(z3.Implies(ISDIR(x), EXISTS(x)), z3.Implies(ISFILE(x), EXISTS(x)),
                              z3.Not(z3.And(ISDIR(x), ISFILE(x)))), patterns=[ISDIR(x), ISFILE(x)])]
    spec.note_assumption('os.path.exists/isdir/isfile are functions of the path that do not change during one '
                         'call (no path is both a directory and a regular file); join, relpath, normpath, '
                         'splitext, str.replace are functions of their arguments; glob.iglob returns a finite '
                         'listing (which paths it lists is NOT assumed here: the whole-tree statement is covered '
                         'by the bounded native stand-in)')

    # ---- calling the rule's factory: handle_type(filename, *args, **kwargs)
    prev = getattr(spec, 'call_object_hook', None)

    def call_obj(X, f, args, kwargs, node):
        if f.t.sort().name() == 'HType':
            if len(args) != 2 or not isinstance(args[1], StarPack) or set(kwargs) - {'**'}:
                X.unsupported('handle factory called with other than (filename, *args, **kwargs)', node)
            a = PREP(s_(args[0]), T._coerce(args[1].v, EV.ArgPack.sort))
            k = T._coerce(kwargs.get('**', Con({})), EV.KwPack.sort)
            T.open_site(X, T.call_term('other', z3.IntVal(16)), node, reenter=False, check_wf=False,
                        raises=['$OtherException'], name='handle factory')
            r = z3.Const(X.fresh_name('made_Node'), Node.sort)
            alloc = spec.alloc_array(X, Node.sort)
            X.assume(z3.Not(alloc[r]))
            X.assume(r != none_of(Node.sort))
            X.ghost['alloc_Node'] = z3.Store(alloc, r, True)
            append_ghost(X, spec, 'falog', FC.make([f, ZV(a), ZV(k), ZV(r)]))
            return ZV(r)
        if prev is not None:
            return prev(X, f, args, kwargs, node)
        X.unsupported('call of %r' % (f,), node)
    spec.call_object_hook = call_obj
    PREP = z3.Function('pack_prepend', S, EV.ArgPack.sort, EV.ArgPack.sort)
    spec.define('prepend', lambda X, p, a: ZV(PREP(s_(p), T._coerce(a, EV.ArgPack.sort))))
    spec.note_assumption('a handle factory returns a new handle object (or raises) and does not touch the map')

    # ---- @dataclass constructor of the rule (fields in declaration order)
    def mk_rule(X, cv, args, kwargs, node):
        names = ['directory_path', 'handle_type', 'args', 'file_exts', 'kwargs']
        o = z3.Const(X.fresh_name('new_Rule'), Rule.sort)
        alloc = spec.alloc_array(X, Rule.sort)
        X.assume(z3.Not(alloc[o]))
        X.assume(o != none_of(Rule.sort))
        X.ghost['alloc_Rule'] = z3.Store(alloc, o, True)
        vals = dict(zip(names, args))
        vals.update(kwargs)
        if set(vals) != set(names):
            X.unsupported('DirectoryPopulatorRule(...) without all five fields', node)
        for n_ in names:
            X.write_field(o, n_, vals[n_])
        return ZV(o)
    spec.constructors[MI + 'DirectoryPopulatorRule'] = mk_rule

    # ---- ResourceMap() and the two map operations
    def mk_map(X, cv, args, kwargs, node):
        o = z3.Const(X.fresh_name('new_RMap'), RMap.sort)
        alloc = spec.alloc_array(X, RMap.sort)
        X.assume(z3.Not(alloc[o]))
        X.assume(o != none_of(RMap.sort))
        X.ghost['alloc_RMap'] = z3.Store(alloc, o, True)
        return ZV(o)
    spec.constructors[MI + 'tree.ResourceMap'] = mk_map
    prev_si = getattr(spec, 'setitem_object_hook', None)

    def setitem(X, c, k, v, node):
        if c.t.sort().name() == 'RMap':
            r = X.repo.find_method(MI + 'tree.ResourceMap', '__setitem__')
            m, fn, q = r
            from pyvc.exec import Closure
            return X.call(BoundMethod(c, Closure(fn, None, m, cls=q)), [k, v], {}, node)
        if prev_si is not None:
            return prev_si(X, c, k, v, node)
        X.unsupported('item store on object %r' % (c,), node)
    spec.setitem_object_hook = setitem
    spec.class_attr_load = getattr(spec, 'class_attr_load', {})
    spec.class_attr_load[(MI + 'tree.ResourceMap', 'split_char')] = lambda X, cv: Con('/')


def register(spec):
    declare(spec)
    C = spec.contract
    tq = MI + 'tree.ResourceMap.'
    # reads and writes of the map, as the populator sees them (their effect on the tree: C11)
    C(tq + 'get', params=dict(self=RMap, key=Str, default=Node), props=[], returns=Node,
      ensures={'reads-the-current-state': 'result == mget(self, key)',
               # C11 (N1, N2, N4 and the `backlinks` clause of __setitem__): what a map holds records
               # its container, whose chain has at least one layer
               'held-nodes-know-their-container': 'implies(result != None, result.parent != None and '
                                                  'result.parent.handles != None and '
                                                  'len(result.parent.handles.maps) >= 1)'})
    C(tq + '__setitem__', params=dict(self=RMap, key=Str, value=Node), props=[],
      # (what the store does to parents, keys and layers is C11's; here it is the recorded
      # request that matters, so the layers below describe the populator's own pushes)
      modifies=['ghost:mver'],
      log_invocation=('silog', 'si(self, key, value)'),
      ensures={'state-advances': 'mver() == old(mver()) + 1'})
    spec.define('mver', lambda X: ZV(X.num(spec_mver(X, spec))))

    rq = MI + 'DirectoryPopulatorRule.'
    C(rq + 'instantiate', params=dict(self=Rule, filename=Str), props=['C16'], returns=Node,
      requires=['self.handle_type != None'],
      modifies=['ghost:falog', 'ghost:log', 'ghost:cnt', 'ghost:alloc_Node'],
      ensures={
          # the factory is called exactly once, with the file name first, then the stored
          # positional arguments, and the stored keyword arguments; its result is returned
          'one-factory-call-with-the-path-and-the-stored-arguments': (
              'len(falog()) == len(old(falog())) + 1 and is_prefix(old(falog()), falog()) and '
              'let(c=falog()[len(old(falog()))], body=fc_t(c) == self.handle_type and '
              'fc_a(c) == prepend(filename, self.args) and fc_k(c) == self.kwargs and fc_r(c) == result)'),
          'a-new-handle': 'result != None and not old(allocated(result))',
      },
      raises={'$OtherException': {'from-the-factory': 'True'}})

    pq = MI + 'DirectoryResourcePopulator.'
    C(pq + '__init__', params=dict(self=Pop, root=Str, nest_on_conflict=TBool, trim_extensions=TBool),
      props=['C16'], modifies=['self.root', 'self.nest_on_conflict', 'self.trim_extensions', 'self.rules'],
      ensures={'stores-its-options': 'self.root == root and self.nest_on_conflict == nest_on_conflict and '
                                     'self.trim_extensions == trim_extensions',
               'no-rules-yet': 'len(self.rules) == 0'})
    C(pq + 'add_rule', params=dict(self=Pop, relative_path=Str, handle_type=HType, args=EV.ArgPack,
                                   file_exts=TSet(Str), kwargs=EV.KwPack), props=['C16'],
      modifies=['self.rules', 'ghost:alloc_Rule', 'Rule.directory_path', 'Rule.handle_type', 'Rule.args',
                'Rule.file_exts', 'Rule.kwargs'],
      ensures={
          'appended-last': 'len(self.rules) == len(old(self.rules)) + 1 and '
                           'is_prefix(old(self.rules), self.rules)',
          'holds-what-was-given': (
              'let(r=self.rules[len(old(self.rules))], body=r != None and not old(allocated(r)) and '
              'r.directory_path == relative_path and r.handle_type == handle_type and r.args == args and '
              'r.kwargs == kwargs and all((x in r.file_exts) == (x in file_exts) for x in Str))'),
          'older-rules-untouched': (
              'all(implies(old(allocated(r)), r.directory_path == old(r.directory_path) and '
              'r.handle_type == old(r.handle_type) and r.args == old(r.args) and r.kwargs == old(r.kwargs) '
              'and r.file_exts == old(r.file_exts)) for r in Rule)'),
      })


def spec_mver(X, spec):
    if 'mver' not in X.ghost:
        spec.havoc_ghost(X, 'mver')
    return X.ghost['mver']


def register_call(spec):
    C = spec.contract
    pq = MI + 'DirectoryResourcePopulator.'
    ROOT = '(root0 if root0 != None else self.root)'
    NEST = '(nest_on_conflict0 if nest_on_conflict0 != None else self.nest_on_conflict)'
    TRIM = '(trim_extensions0 if trim_extensions0 != None else self.trim_extensions)'
    LOGS = ['ghost:falog', 'ghost:silog', 'ghost:mver', 'ghost:log', 'ghost:cnt', 'ghost:alloc_Node',
            'ghost:alloc_RMap', 'Node.parent', 'Node.key', 'Chain.maps']
    rules_ok = ('all(implies(0 <= i and i < len(self.rules), self.rules[i] != None and '
                'self.rules[i].handle_type != None) for i in Int)')
    ROOT_E = '(root if root != None else self.root)'       # in pre/postconditions parameters are entry values
    bad_rule = ('any(0 <= i and i < len(self.rules) and exists(join(%s, self.rules[i].directory_path)) and '
                'not isdir(join(%s, self.rules[i].directory_path)) for i in Int)' % (ROOT_E, ROOT_E))
    C(pq + '__call__', params=dict(self=Pop, resource_map=RMap, root=Str, nest_on_conflict=TOpt(TBool),
                                   trim_extensions=TOpt(TBool)), props=['C16'],
      requires=['resource_map != None', rules_ok,
                # shape of a tree of maps: what get() returns knows its container (C11, N1/N2),
                # whose chain of layers exists
                'all(implies(n != None and n.parent != None, n.parent.handles != None and '
                'len(n.parent.handles.maps) >= 1) for n in Node)'],
      modifies=LOGS, open_effect=True, rely=[],
      ensures={'every-rule-path-is-a-directory-or-missing': 'not %s' % bad_rule},
      raises={'ValueError': {'only-for-a-rule-path-that-is-not-a-directory': bad_rule},
              '$OtherException': {'from-a-handle-factory': 'True'}})
    spec.sites['DirectoryResourcePopulator.__call__'] = {'reenter': False, 'check_wf': False}

    DIRP = 'join(root, rule.directory_path)'
    spec.loop(pq + '__call__', 0, index='ri', seq='rules', invariants={
        'options-fall-back-to-the-constructor': 'root == %s and nest_on_conflict == %s and trim_extensions == %s'
                                                % (ROOT, NEST, TRIM),
        'same-rules': 'rules == self.rules',
        'earlier-rule-paths-fine': ('all(implies(0 <= i and i < ri, implies(exists(join(root, rules[i].directory_path)), '
                                    'isdir(join(root, rules[i].directory_path)))) for i in Int)'),
    }, havoc=LOGS, vars={'rule': Rule, 'full_dir_path': Str, 'full_file_path': Str, 'relpath': Str,
                         'resource_string': Str, 'new_resource': Node, 'handle': Node},
        body_ensures={
            'a-missing-rule-directory-is-skipped': (
                'implies(not exists(%s), silog() == old(silog()) and falog() == old(falog()))' % DIRP),
        })

    P = 'full_file_path'
    accepted = '(len(rule.file_exts) == 0 or ext(%s) in rule.file_exts)' % P
    KEY = '(stem(key_of(%s, root)) if (trim_extensions and isfile(%s)) else key_of(%s, root))' % (P, P, P)
    H0 = 'old(mget(resource_map, %s))' % KEY
    nothing = 'silog() == old(silog()) and falog() == old(falog())'
    layers_same = ('all(implies(c != None, c.maps == old(c.maps)) for c in Chain)')
    pushes = ('(%s and isfile(%s) and nest_on_conflict and %s != None and %s.parent != None and '
              'old(%s.key in %s.parent.handles.maps[0] and %s.parent.handles.maps[0][%s.key] == %s))'
              % (accepted, P, H0, H0, H0.replace('old(', '(', 1), H0.replace('old(', '(', 1),
                 H0.replace('old(', '(', 1), H0.replace('old(', '(', 1), H0.replace('old(', '(', 1)))
    one_store = ('len(silog()) == len(old(silog())) + 1 and is_prefix(old(silog()), silog()) and '
                 'si_m(silog()[len(old(silog()))]) == resource_map and '
                 'si_k(silog()[len(old(silog()))]) == %s' % KEY)
    spec.loop(pq + '__call__', 1, index='fi', seq='listing', invariants={
        'options': 'root == %s and nest_on_conflict == %s and trim_extensions == %s' % (ROOT, NEST, TRIM),
    }, havoc=LOGS, vars={'full_file_path': Str, 'relpath': Str, 'resource_string': Str, 'new_resource': Node,
                         'handle': Node},
        body_ensures={
            # an entry the rule's extension filter rejects changes nothing
            'rejected-entries-do-nothing': 'implies(not %s, %s and %s)' % (accepted, nothing, layers_same),
            # a regular file: one factory call (path, *args, **kwargs), its handle stored under the key
            'file-one-factory-call': (
                'implies(%s and isfile(%s), len(falog()) == len(old(falog())) + 1 and '
                'is_prefix(old(falog()), falog()) and let(c=falog()[len(old(falog()))], '
                'body=fc_t(c) == rule.handle_type and fc_a(c) == prepend(%s, rule.args) and '
                'fc_k(c) == rule.kwargs and si_v(silog()[len(old(silog()))]) == fc_r(c)))' % (accepted, P, P)),
            'file-stored-under-its-key': 'implies(%s and isfile(%s), %s)' % (accepted, P, one_store),
            # a directory: a new sub-map under its (untrimmed) key iff the key is free
            'directory-with-a-free-key-becomes-a-sub-map': (
                'implies(%s and isdir(%s) and %s == None, %s and falog() == old(falog()) and '
                'let(v=si_v(silog()[len(old(silog()))]), body=v != None and not old(allocated(as_map(v))) and '
                'as_map(v) != None))' % (accepted, P, H0, one_store)),
            'directory-with-a-taken-key-does-nothing': (
                'implies(%s and isdir(%s) and %s != None, %s)' % (accepted, P, H0, nothing)),
            'neither-file-nor-directory-does-nothing': (
                'implies(%s and not isdir(%s) and not isfile(%s), %s)' % (accepted, P, P, nothing)),
            # conflict nesting: a new first layer exactly when nesting is on and the key is held by
            # a handle of the first layer; the older layers keep everything they had
            'layer-pushed-to-keep-the-older-handle': (
                'implies(%s, let(h=%s, ch=old(h.parent.handles), body='
                'len(ch.maps) == len(old(ch.maps)) + 1 and '
                'all(implies(0 <= j and j < len(old(ch.maps)), ch.maps[j + 1] == old(ch.maps)[j]) for j in Int) and '
                'all(not (s in ch.maps[0]) for s in Str)))' % (pushes, H0)),
            'no-layer-otherwise': 'implies(not %s, %s)' % (pushes, layers_same),
        })


_reg_pop0 = register


def register(spec):     # noqa: F811
    _reg_pop0(spec)
    register_call(spec)
