"""Contracts for desper/logic/world.py: C01 (queries agree), C02 (lifecycle
callbacks), C05 (deferred deletion), C06 (type queries), C07 (processors).

Abstract view: att(w) = {(e, t) -> w._entities[e][t]}.  Inner dicts and index
sets are values owned by the world (they never escape: checked syntactically by
the engine's aliasing rule), so the nested tables are modelled as nested maps.
"""
import z3

from pyvc import theory as T, prelude
from pyvc.sym import forall
from pyvc.sym import (Con, ZV, TupV, SetV, DictV, ListV, TScalar, TBool, TInt, TReal, TSet,
                      TDict, TList, TSort, usort, none_of, deref, NONE, TOpt)
from pyvc.exec import OpenFn, BoundMethod, Builtin, ClassLevel, ExcV, PyRaise, ClassV
from . import events_spec as EV

W = 'desper.logic.world.World.'

Ent = TSort('Ent')
Comp = TSort('Comp')
Proc = TSort('Proc')
TypeS = TSort('Type')
World = TSort('World')
IdGen = TSort('IdGen')
Str = EV.Str
EC = T.TTupleSort('EC', [('ec_e', Ent), ('ec_c', Comp)])

WORLD_FIELDS = dict(
    _components=TDict(TypeS, TSet(Ent)),
    _entities=TDict(Ent, TDict(TypeS, Comp)),
    _dead_entities=TSet(Ent),
    # ghost (not a field of the real class): identifiers that owned nothing when delete_entity
    # marked them; maintained by the contract of delete_entity, never by the code
    _never=TSet(Ent),
    _sorted_processors=TList(Proc),
    _processors=TDict(TypeS, Proc),
    id_generator=IdGen,
    id_generator_factory=TSort('Factory'),
)

WF_W = {
    # the index is the transpose of the table
    'I1': ("all((t in self._components and e in self._components[t]) == "
           "(e in self._entities and t in self._entities[e]) for e in Ent for t in Type)", 'prop'),
    # no empty index set, no empty entity row (entities/entity_exists read dom(_entities))
    # (an empty index set would be harmless for every query: not part of wf; stating
    #  it together with I1 and I2b makes E-matching chase witnesses forever)
    'I2b': ("all(implies(e in self._entities, nonempty(self._entities[e])) for e in Ent)", 'prop'),
    # a component is stored under its exact type
    'I3': ("all(implies(e in self._entities and t in self._entities[e], "
           "typeof(self._entities[e][t]) == t and self._entities[e][t] != None) "
           "for e in Ent for t in Type)", 'prop'),
    'I4': ("not (None in self._entities) and not (None in self._components)", 'aux'),
    # C05: a pending deletion mark refers to an existing entity - unless the identifier owned
    # nothing when it was marked (ghost _never); only such a mark can make process() fail, once
    'M1': ("all(implies(x in self._dead_entities, x in self._entities or x in self._never) "
           "for x in Ent)", 'prop'),
    # usage assumption carried as an invariant: a component instance is attached at
    # most once (add_component/create_entity require it of their arguments)
    'U1': ("all(implies(e in self._entities and t in self._entities[e] and "
           "e2 in self._entities and t2 in self._entities[e2] and "
           "self._entities[e][t] == self._entities[e2][t2], e == e2 and t == t2) "
           "for e in Ent for t in Type for e2 in Ent for t2 in Type)", 'aux'),
}

WF_P = {
    # table and execution list describe the same processors, one per exact type
    'P1': ("all(implies(0 <= i and i < len(self._sorted_processors), "
           "self._sorted_processors[i] != None and "
           "typeof(self._sorted_processors[i]) in self._processors and "
           "self._processors[typeof(self._sorted_processors[i])] == self._sorted_processors[i]) "
           "for i in Int)", 'prop'),
    'P2': ("all(implies(t in self._processors, typeof(self._processors[t]) == t and "
           "any(0 <= i and i < len(self._sorted_processors) and "
           "self._sorted_processors[i] == self._processors[t] for i in Int)) for t in Type)", 'prop'),
    'P3': ("all(implies(0 <= i and i < j and j < len(self._sorted_processors), "
           "self._sorted_processors[i] != self._sorted_processors[j]) for i in Int for j in Int)", 'prop'),
    # non-decreasing priority
    'P4': ("all(implies(0 <= i and i < j and j < len(self._sorted_processors), "
           "self._sorted_processors[i].priority <= self._sorted_processors[j].priority) "
           "for i in Int for j in Int)", 'prop'),
    'P5': ("len(self._sorted_processors) >= 0 and not (None in self._processors)", 'aux'),
}

# C02: an attached handler component is registered; the world listens to itself
WF_R = {
    'R1': ("all(implies(e in self._entities and t in self._entities[e] and has_events(t), "
           "wref(self._entities[e][t]) in self._handlers) for e in Ent for t in Type)", 'prop'),
    'R2': ("wref(self) in self._handlers and alive(self)", 'prop'),
}


def declare(spec):
    """Sorts, classes and hooks for World (shared with logic/loop/model specs)."""
    if getattr(spec, '_world_common', False):
        return
    spec._world_common = True
    EV.declare_common(spec)
    for n in ('Ent', 'Comp', 'Proc', 'World', 'IdGen', 'EC', 'Factory'):
        spec.sort_name(n, EC.sort if n == 'EC' else None)
    T.declare_injection('Comp', 'Handler')
    T.declare_injection('Proc', 'Handler')
    T.declare_injection('World', 'Handler')

    disp = spec.klass(None, 'DispBase', fields=EV.DISP_FIELDS)
    EV.add_dispatcher_invariants(disp)
    # contracts of the inherited EventDispatcher methods are polymorphic in self
    if 'desper.events.EventDispatcher' not in spec.class_by_qual:
        D = spec.klass('desper.events.EventDispatcher', 'Disp', fields=EV.DISP_FIELDS)
        EV.add_dispatcher_invariants(D)
        EV.register_dispatcher_contracts(spec, 'Disp')
    D = spec.class_by_qual['desper.events.EventDispatcher']
    Wk = spec.klass('desper.logic.world.World', 'World', fields=WORLD_FIELDS, parent=D)
    for name, (text, role) in list(WF_W.items()) + list(WF_P.items()) + list(WF_R.items()):
        Wk.invariant(name, text, role)
    Wk.groups = {'W': list(WF_W), 'P': list(WF_P), 'R': list(WF_R)}
    # class-level fact read from the real decorator on World (T4: a World subclass
    # does not remap the relay event): @event_handler(on_single_dispatch='...')
    import ast as _ast
    m, cdef = spec.repo.klass('desper.logic.world.World')
    for dec in cdef.decorator_list:
        if isinstance(dec, _ast.Call) and getattr(dec.func, 'id', '') == 'event_handler':
            for kw in dec.keywords:
                if isinstance(kw.value, _ast.Constant):
                    Wk.invariant('R3', "has_events(typeof(self)) and ev_has(typeof(self), '%s') and "
                                 "ev_get(typeof(self), '%s') == '%s'"
                                 % (kw.arg, kw.arg, kw.value.value), 'aux')
                    Wk.groups['R'].append('R3')
    # a World under construction: alive (the constructor holds it), its class-level facts (R3)
    def new_world(X, obj, cv):
        X.assume(spec.eval_bool(X, 'alive(w)', {'w': obj}))
        for cname, role, f in spec.wf_clauses(X, obj, 'R3'):
            X.assume(f)
        spec.note_assumption('a newly allocated World is alive and carries the event map of the '
                             '@event_handler decorator on class World (T4)')
    spec.alloc_hooks = getattr(spec, 'alloc_hooks', {})
    spec.alloc_hooks.setdefault('World', []).append(new_world)
    spec.klass(None, 'Ent')
    spec.klass(None, 'IdGen')
    spec.klass(None, 'Factory')
    Ck = spec.klass(None, 'Comp', fields={'__events__': ClassLevel(T.events_of)})
    Pk = spec.klass('desper.logic.world.Processor', 'Proc',
                    fields={'world': World, 'priority': TInt,
                            '__events__': ClassLevel(T.events_of)})
    # components and processors are user objects whose classes may define == by value
    # (dataclass-like): `==`/`!=` between them in the analysed code is not identity
    Ck.value_equality = True
    Pk.value_equality = True
    Tk = spec.klass(None, 'Type')
    T.declare_class_of('Proc', 'desper.logic.world.Processor')
    T.declare_class_of('World', 'desper.logic.world.World')

    def subclasses(X, obj, node):
        def fn(X, args, kw, node):
            t = obj.t
            X.assume(prelude.subs_len(t) >= 0)
            return ListV(TypeS, prelude.subs_len(t), [prelude.subs_arr(t)])
        return Builtin('__subclasses__', fn)
    Tk.attr_hooks['__subclasses__'] = subclasses
    # a class-level attribute read through the class object (Processor.priority)
    Tk.attr_hooks['priority'] = lambda X, obj, node: ZV(
        z3.Function('class_priority', TypeS.sort, z3.IntSort())(obj.t))

    spec.hasattr_hooks[('Comp', '__events__')] = lambda X, v: ZV(T.has_events(prelude.type_of(X, v.t)))
    spec.hasattr_hooks[('Proc', '__events__')] = lambda X, v: ZV(T.has_events(prelude.type_of(X, v.t)))

    d = spec.define
    d('desc', lambda X, a, b: ZV(prelude.desc(tt(X, a), tt(X, b))))
    d('ec', lambda X, e, c: ZV(EC.make([e, c])))

    def index_in(X, lst, x):
        """Some position of x in the list, if it occurs (prelude.idxof)."""
        lst = deref(lst)
        return ZV(prelude.idxof(lst, lst.E.to_leaves(x)))
    d('index_in', index_in)

    def filter_map(which):
        def fn(X, lst):
            lst = deref(lst)
            info = X.list_info.get(z3.simplify(lst.ats[0]).get_id()) or \
                X.list_info.get(lst.ats[0].get_id()) or X.list_info.get('last_filter')
            i = z3.Int('i_fm')
            if info is None:
                # the list was not produced by a filter on this path
                return ZV(z3.Const(X.fresh_name('nomap'), z3.ArraySort(z3.IntSort(), z3.IntSort())))
            return ZV(z3.Lambda([i], info[which](i)))
        return fn
    d('filter_src', filter_map('emb'))
    d('filter_dst', filter_map('inv'))

    def nonempty(X, c):
        c = deref(c)
        arr = c.arr if isinstance(c, SetV) else c.dom
        return ZV(arr != z3.K(c.K.sort, z3.BoolVal(False)))
    d('nonempty', nonempty)
    d('ec_e', lambda X, x: ZV(EC.dt.ec_e(deref(x).t)))
    d('ec_c', lambda X, x: ZV(EC.dt.ec_c(deref(x).t)))

    spec.ghost_decls['plog'] = TList(T.TCall())

    def plog(X):
        if 'plog' not in X.ghost:
            spec.havoc_ghost(X, 'plog')
        return X.ghost['plog']
    d('plog', plog)
    d('call_proc', lambda X, p, dt: ZV(T.call_term('proc', deref(p).t, T._coerce(dt, z3.RealSort()))))

    # processors are open code
    def proc_process(X, f, recv, args, kwargs, node):
        if f.kind != 'proc.process':
            return None
        dt = T._coerce(args[0], z3.RealSort())
        c = T.call_term('proc', deref(recv).t, dt)
        site = spec.site_config(X, node)
        pl = plog(X)
        X.ghost['plog'] = ListV(pl.E, pl.n + 1, [z3.Store(pl.ats[0], pl.n, c)])
        return (T.open_site(X, c, node, reenter=site.get('reenter', True),
                            raises=site.get('raises'), name='Processor.process'),)
    spec.open_handlers.append(proc_process)
    Pk.open_methods['process'] = OpenFn(None, kind='proc.process', name='Processor.process')

    # next(self.id_generator): any identifier the generator may produce
    def next_hook(X, v, node):
        if isinstance(v, ZV) and v.t.sort().name() == 'IdGen':
            r = X.fresh(Ent, 'auto_id')
            X.events.append(('next_id', r))
            X.named_ghosts['auto_id'] = r
            X.assume(r.t != none_of(Ent.sort))
            if getattr(X, 'assume_fresh_ids', False):
                spec.note_assumption('World.create_entity (main contract): the id generator yields '
                                     'an identifier that owns no components (the other case is D02, '
                                     'checked by create_entity#auto-id)')
                ents = deref(X.read_field(deref(X.entry_env['self']).t, '_entities'))
                X.assume(z3.Not(ents.dom[r.t]))
            return r
        X.unsupported('next(%r)' % (v,), node)
    spec.next_hook = next_hook
    spec.spec_names['auto_id'] = ZV(z3.Const('auto_id_not_drawn', Ent.sort))


def tt(X, v):
    v = deref(v)
    if isinstance(v, ClassV):
        return prelude.class_term(X, v)
    return v.t


# ===================================================================== walks

def walk_loop(spec, qual, ordinal, root, match, extra=None, havoc=None, ghost_extra=None):
    """Invariants of a `fringe` walk over __subclasses__():
    (a) every fringe element descends from the root; (b) every still unexamined
    match is below some fringe element (ghost witness `wit`); (c) once the first
    element (the root itself) has been examined without returning, the root is
    not a match (exact-type priority)."""
    def wit_init(X, env):
        return ZV(z3.K(TypeS.sort, z3.IntVal(0)))

    def wit_step(X, now, head):
        w = deref(head['wit']).t
        fr = deref(head['fringe'])
        n = fr.n
        F = fr.at(n - 1).t
        new = z3.Const(X.fresh_name('wit'), w.sort())
        S = z3.Const('S_w', TypeS.sort)
        X.assume(forall([S], new[S] == z3.If(w[S] < n - 1, w[S], n - 1 + prelude.next_sub(F, S)),
                        patterns=[new[S]]))
        return ZV(new)
    inv = {
        'fringe-below-root': 'all(implies(0 <= k and k < len(fringe), desc(%s, fringe[k]) and '
                             'fringe[k] != None) for k in Int)' % root,
        'matches-below-fringe': 'all(implies(desc(%s, S) and (%s), 0 <= wit[S] and '
                                'wit[S] < len(fringe) and desc(fringe[wit[S]], S)) for S in Type)'
                                % (root, match),
        'exact-type-first': 'let(S=%s, body=first or not (%s))' % (root, match),
        'first-means-root': 'implies(first, len(fringe) == 1 and fringe[0] == %s)' % root,
    }
    inv.update(extra or {})
    ghost = {'wit': (TScalar(z3.ArraySort(TypeS.sort, z3.IntSort())), wit_init, wit_step),
             'first': (TBool, 'True', 'False')}
    ghost.update(ghost_extra or {})
    spec.loop(qual, ordinal, invariants=inv, vars={'fringe': TList(TypeS), 'subtype': TypeS},
              ghost=ghost, havoc=havoc or [])


# ================================================================= contracts

ATT = "(e in self._entities and t in self._entities[e])"
OLD_ATT = "(e in old(self._entities) and t in old(self._entities)[e])"


def register(spec):
    declare(spec)
    C = spec.contract
    spec.site_prefix['World.'] = {'reenter': False, 'check_wf': True}
    wfW = ["wf(self, 'W')"]
    wfall = ["wf(self)"]
    P = dict(self=World)
    req_type = ['component_type != None']

    # ---------------------------------------------------------------- queries
    C(W + 'entity_exists', params=dict(P, entity=Ent), props=['C01', 'C05'], requires=wfW,
      returns=TBool, ensures={
          'owns-a-component-and-not-pending':
              'result == (entity in self._entities and nonempty(self._entities[entity]) '
              'and not (entity in self._dead_entities))'})
    C(W + 'get_components', params=dict(P, entity=Ent), props=['C01'], requires=wfW,
      returns=TList(Comp),
      ensures={
          'only-attached': (
              'all(implies(0 <= i and i < len(result), entity in self._entities and '
              'typeof(result[i]) in self._entities[entity] and '
              'self._entities[entity][typeof(result[i])] == result[i]) for i in Int)'),
          'all-attached': (
              'all(implies(entity in self._entities and t in self._entities[entity], '
              'any(0 <= i and i < len(result) and result[i] == self._entities[entity][t] '
              'for i in Int)) for t in Type)'),
          'none-when-unknown': 'implies(not (entity in self._entities), len(result) == 0)',
      })
    C(W + 'has_component', params=dict(P, entity=Ent, component_type=TypeS), props=['C01', 'C06'],
      requires=wfW + req_type, returns=TBool,
      ghost_results={'S': ('local', 'subtype', TypeS)},
      ensures={
          'sound': 'implies(result, desc(component_type, S) and entity in self._entities and '
                   'S in self._entities[entity])',
          'complete': 'implies(not result, all(not (desc(component_type, U) and '
                      'entity in self._entities and U in self._entities[entity]) for U in Type))',
      })
    walk_loop(spec, W + 'has_component', 0, 'component_type',
              'entity in self._entities and S in self._entities[entity]')
    C(W + 'get_component', params=dict(P, entity=Ent, component_type=TypeS, default=Comp),
      props=['C01', 'C06'], requires=wfW + req_type, returns=Comp,
      ghost_results={'S': ('local', 'subtype', TypeS)},
      ensures={
          'found-is-attached-subtype': (
              'implies(any(desc(component_type, U) and entity in self._entities and '
              'U in self._entities[entity] for U in Type), '
              'desc(component_type, S) and entity in self._entities and '
              'S in self._entities[entity] and result == self._entities[entity][S])'),
          'exact-type-preferred': (
              'implies(entity in self._entities and component_type in self._entities[entity], '
              'result == self._entities[entity][component_type])'),
          'default-iff-none': (
              'implies(all(not (desc(component_type, U) and entity in self._entities and '
              'U in self._entities[entity]) for U in Type), result == default)'),
      })
    walk_loop(spec, W + 'get_component', 0, 'component_type',
              'entity in self._entities and S in self._entities[entity]')

    # ---------------------------------------------------------- delete_entity
    C(W + 'delete_entity', params=dict(P, entity=Ent, immediate=TBool),
      props=['C01', 'C02', 'C05'], requires=wfall,
      modifies=['self._components', 'self._entities', 'self._dead_entities', 'self._never'] + DISP_STATE,
      ensures={
          'wf': ("wf(self)", 'prop'),
          'deferred-only-marks': (
              'implies(not immediate, unchanged_except(self, "_dead_entities,_never") and '
              'all((x in self._dead_entities) == (x in old(self._dead_entities) or x == entity) '
              'for x in Ent) and all(cnt(c) == old(cnt(c)) for c in Call))'),
          'remembers-a-mark-on-an-unknown-identifier': (
              'all((x in self._never) == (x in old(self._never) or (x == entity and not immediate and '
              'not (entity in old(self._entities)))) for x in Ent)'),
          'immediate-removes-row': (
              'implies(immediate, not (entity in self._entities) and '
              'not (entity in self._dead_entities) and '
              'all(implies(e != entity, ' + ATT + ' == ' + OLD_ATT + ' and implies(' + ATT + ', '
              'self._entities[e][t] == old(self._entities)[e][t])) for e in Ent for t in Type))'),
          'processors-untouched': 'self._sorted_processors == old(self._sorted_processors) and '
                                  'self._processors == old(self._processors)',
      },
      raises={'KeyError': {'only-unknown-immediate': 'immediate and not (entity in old(self._entities))',
                           'unchanged': 'unchanged_except(self, "")'},
              '$OtherException': {'from-callback-only': 'immediate'}})
    def note_never(X, env):
        # ghost: a deferred deletion of an identifier that owns nothing is remembered
        me, ent = deref(env['self']), deref(env['entity'])
        ents = deref(X.read_field(me.t, '_entities'))
        nev = deref(X.read_field(me.t, '_never'))
        cond = z3.And(z3.Not(X._z(X.truth(env['immediate']))), z3.Not(ents.dom[ent.t]))
        X.write_field(me.t, '_never', SetV(nev.K, z3.If(cond, z3.Store(nev.arr, ent.t, True), nev.arr)))
    spec.contracts[W + 'delete_entity'].ghost_prologue = note_never
    spec.loop(W + 'delete_entity', 0, index='i', seq='types', invariants={
        'wf': 'wf(self)',
        'row-shrinks': (
            'all(' + ATT + ' == (' + OLD_ATT + ' and not (e == entity and pos(t) < i)) and '
            'implies(' + ATT + ', self._entities[e][t] == old(self._entities)[e][t]) '
            'for e in Ent for t in Type)'),
        'types-are-the-old-row': 'all(implies(0 <= k and k < len(types), '
                                 'types[k] in old(self._entities)[entity]) for k in Int)',
        'marks': 'all(implies(x != entity, (x in self._dead_entities) == '
                 '(x in old(self._dead_entities))) for x in Ent)',
        'mark-dropped-with-row': 'implies(not (entity in self._entities), '
                                 'not (entity in self._dead_entities))',
        'processors-untouched': 'self._sorted_processors == old(self._sorted_processors) and '
                                'self._processors == old(self._processors)',
        'entity-known': 'entity in old(self._entities)',
    }, havoc=['self._components', 'self._entities', 'self._dead_entities', 'self._events',
              'self._handlers', 'self._event_queue', 'ghost:log', 'ghost:cnt'])

# row `entity` lost exactly (entity, S); everything else as before
def att_minus(ent, typ):
    return ("all((" + ATT + ") == (" + OLD_ATT + " and not (e == %s and t == %s)) and "
            "implies(" + ATT + ", self._entities[e][t] == old(self._entities)[e][t]) "
            "for e in Ent for t in Type)") % (ent, typ)


def att_plus(ent, typ, comp):
    return ("all((" + ATT + ") == (" + OLD_ATT + " or (e == %s and t == %s)) and "
            "implies(" + ATT + ", self._entities[e][t] == "
            "(%s if (e == %s and t == %s) else old(self._entities)[e][t])) "
            "for e in Ent for t in Type)") % (ent, typ, comp, ent, typ)


ATT_SAME = ("all((" + ATT + ") == (" + OLD_ATT + ") and implies(" + ATT + ", "
            "self._entities[e][t] == old(self._entities)[e][t]) for e in Ent for t in Type)")


def cb_call(comp, event, *args):
    """The call record of `comp`'s callback for `event` with the given arguments."""
    return ("call_cb(class_attr(typeof(%s), ev_get(typeof(%s), '%s')), %s, pack(%s), kw_empty())"
            % (comp, comp, event, comp, ', '.join(args)))


def lifecycle(comp, event, ent, cond):
    """C02 clauses for one attach/detach of `comp` (condition `cond` = it happened)."""
    c = cb_call(comp, event, ent, 'self')
    relay = "qe('on_single_dispatch', pack('%s', %s, %s, self), kw_empty())" % (event, comp, ent)
    has = "(has_events(typeof(%s)) and ev_has(typeof(%s), '%s'))" % (comp, comp, event)
    return {
        event + '-once-when-enabled': (
            "implies(%s and %s and old(self._dispatch_enabled), cnt(%s) == old(cnt(%s)) + 1 and "
            "all(implies(c != %s, cnt(c) == old(cnt(c))) for c in Call) and "
            "self._event_queue == old(self._event_queue))" % (cond, has, c, c, c)),
        event + '-postponed-not-lost': (
            "implies(%s and %s and not old(self._dispatch_enabled), "
            "all(cnt(c) == old(cnt(c)) for c in Call) and "
            "len(self._event_queue) == len(old(self._event_queue)) + 1 and "
            "is_prefix(old(self._event_queue), self._event_queue) and "
            "self._event_queue[len(old(self._event_queue))] == %s)" % (cond, has, relay)),
        event + '-nothing-otherwise': (
            "implies(not (%s and %s), all(cnt(c) == old(cnt(c)) for c in Call) and "
            "self._event_queue == old(self._event_queue))" % (cond, has)),
    }


DISP_STATE = ['self._events', 'self._handlers', 'self._event_queue', 'ghost:log', 'ghost:cnt']


def register_mutators(spec):
    C = spec.contract
    wfall = ["wf(self)"]
    P = dict(self=World)
    # the relay of a postponed lifecycle callback: whatever happened to the handler in the
    # meantime, exactly one call of the method its class maps to the event, with the arguments
    # that were queued (the last hop of on_add-postponed-not-lost / on_remove-postponed-not-lost)
    RELAYED = ("call_cb(class_attr(typeof(handler), ev_get(typeof(handler), event)), handler, args, "
               "kw_empty())")
    C(W + '_on_single_dispatch', params=dict(self=World, event=EV.Str, handler=EV.Handler, args=EV.ArgPack),
      props=['C02'], open_effect=True, modifies=['ghost:log', 'ghost:cnt'],
      requires=['wf(self)', 'event != None', 'handler != None',
                'has_events(typeof(handler)) and ev_has(typeof(handler), event)'],
      ensures={'relayed-exactly-once-to-the-handler': (
          'cnt(%s) == old(cnt(%s)) + 1 and all(implies(c != %s, cnt(c) == old(cnt(c))) for c in Call)'
          % (RELAYED, RELAYED, RELAYED))},
      raises={'$OtherException': {'from-the-callback': (
          'cnt(%s) == old(cnt(%s)) + 1 and all(implies(c != %s, cnt(c) == old(cnt(c))) for c in Call)'
          % (RELAYED, RELAYED, RELAYED))}})
    MATCH = 'entity in old(self._entities) and U in old(self._entities)[entity]'
    found = 'any(desc(component_type, U) and %s for U in Type)' % MATCH

    ens = {
        'wf': ("wf(self)", 'prop'),
        'nothing-to-remove': 'implies(not %s, result == None and %s and '
                             'self._components == old(self._components))' % (found, ATT_SAME),
        'removes-one-matching': (
            'implies(%s, desc(component_type, S) and entity in old(self._entities) and '
            'S in old(self._entities)[entity] and result == old(self._entities)[entity][S] and %s)'
            % (found, att_minus('entity', 'S'))),
        'exact-type-preferred': (
            'implies(entity in old(self._entities) and component_type in '
            'old(self._entities)[entity], S == component_type)'),
        'pending-mark-dropped-with-the-row': (
            'all((x in self._dead_entities) == (x in old(self._dead_entities) and not '
            '(x == entity and entity in old(self._entities) and not (entity in self._entities))) '
            'for x in Ent)'),
        'processors-untouched': 'self._sorted_processors == old(self._sorted_processors) and '
                                'self._processors == old(self._processors)',
        'unregistered': 'implies(%s and has_events(typeof(result)), '
                        'not (wref(result) in self._handlers))' % found,
        'other-handlers-kept': 'all(implies(not (%s and r == wref(result)), '
                               '(r in self._handlers) == (r in old(self._handlers))) for r in Ref)'
                               % found,
        'flag-untouched': 'self._dispatch_enabled == old(self._dispatch_enabled)',
    }
    ens.update(lifecycle('result', 'on_remove', 'entity', found))
    C(W + 'remove_component', params=dict(P, entity=Ent, component_type=TypeS),
      props=['C01', 'C02', 'C05', 'C06'], requires=wfall + ['component_type != None'], returns=Comp,
      modifies=['self._components', 'self._entities', 'self._dead_entities'] + DISP_STATE,
      ghost_results={'S': ('local', 'subtype', TypeS)}, ensures=ens,
      raises={'$OtherException': {
          'from-callback-only': found,
          'wf': ("wf(self)", 'prop'),
          'marks-only-shrink': 'all(implies(x in self._dead_entities, x in old(self._dead_entities)) '
                               'for x in Ent)',
          'processors-untouched': 'self._sorted_processors == old(self._sorted_processors) and '
                                  'self._processors == old(self._processors)'}})
    walk_loop(spec, W + 'remove_component', 0, 'component_type',
              'entity in self._entities and S in self._entities[entity]',
              extra={
                  'nothing-removed-yet': 'removed == None and unchanged_except(self, "")',
                  'counters-untouched': 'all(cnt(c) == old(cnt(c)) for c in Call)',
              })
    spec.loops[(W + 'remove_component', 0)].vars['removed'] = Comp

    ens = {
        'wf': ("wf(self)", 'prop'),
        'view': att_plus('entity', 'typeof(component)', 'component'),
        'pending-mark-untouched': 'self._dead_entities == old(self._dead_entities)',
        'processors-untouched': 'self._sorted_processors == old(self._sorted_processors) and '
                                'self._processors == old(self._processors)',
        'registered': 'implies(has_events(typeof(component)), wref(component) in self._handlers)',
        'flag-untouched': 'self._dispatch_enabled == old(self._dispatch_enabled)',
    }
    C(W + 'add_component', params=dict(P, entity=Ent, component=Comp), props=['C01', 'C02', 'C05'],
      requires=wfall + ['component != None', 'entity != None', 'alive(component)',
                        # the instance is not attached anywhere else
                        'all(implies(e in self._entities and t in self._entities[e] and '
                        'self._entities[e][t] == component, e == entity) '
                        'for e in Ent for t in Type)'],
      modifies=['self._components', 'self._entities', 'self._dead_entities'] + DISP_STATE,
      # a callback that raises (on_remove of the replaced component, on_add of the new one)
      # leaves a well-formed world: in particular no deletion mark for an entity that is gone
      ensures=ens, raises={'$OtherException': {'from-callback-only': 'True', 'wf': ("wf(self)", 'prop')}})


_register0 = register


def register(spec):     # noqa: F811
    _register0(spec)
    register_mutators(spec)


def register_lifecycle(spec):
    C = spec.contract
    wfall = ["wf(self)"]
    P = dict(self=World)
    ALLSTATE = ['self._components', 'self._entities', 'self._dead_entities'] + DISP_STATE
    HAVOC = ['self._components', 'self._entities', 'self._dead_entities', 'self._events',
             'self._handlers', 'self._event_queue', 'ghost:log', 'ghost:cnt']

    # rows of pending entities go, every other row is as before
    applied = ('all(' + ATT + ' == (' + OLD_ATT + ' and not (e in old(self._dead_entities))) and '
               'implies(' + ATT + ', self._entities[e][t] == old(self._entities)[e][t]) '
               'for e in Ent for t in Type)')
    C(W + '_clear_dead_entities', params=P, props=['C01', 'C02', 'C05'], requires=wfall,
      modifies=ALLSTATE,
      ensures={
          'wf': ("wf(self)", 'prop'),
          'pending-rows-removed': applied,
          'no-mark-left': 'all(not (x in self._dead_entities) for x in Ent)',
          'processors-untouched': 'self._sorted_processors == old(self._sorted_processors) and '
                                  'self._processors == old(self._processors)',
      },
      raises={
          # only for an identifier that owned nothing when it was marked (test-suite
          # behaviour); the mark is gone, so the next call does not fail on it again
          'KeyError': {'wf': ("wf(self)", 'prop'),
                       'only-never-existing': 'any(x in old(self._dead_entities) and '
                                              'not (x in old(self._entities)) and x in old(self._never) '
                                              'for x in Ent)',
                       'mark-consumed': 'all(implies(x in self._dead_entities, '
                                        'x in old(self._dead_entities)) for x in Ent)'},
          '$OtherException': {'wf': ("wf(self)", 'prop'),
                              'marks-only-shrink': 'all(implies(x in self._dead_entities, '
                                                   'x in old(self._dead_entities)) for x in Ent)'}})
    # marked entities always own something (wf clause M1 below), so KeyError is
    # possible only for ids marked while unknown; `done` = marks already applied
    spec.loop(W + '_clear_dead_entities', 0, invariants={
        'wf': 'wf(self)',
        'marks-shrink': 'all(implies(x in self._dead_entities, x in old(self._dead_entities)) '
                        'for x in Ent)',
        'applied-so-far': (
            'all(' + ATT + ' == (' + OLD_ATT + ' and not (e in old(self._dead_entities) and '
            'not (e in self._dead_entities))) and '
            'implies(' + ATT + ', self._entities[e][t] == old(self._entities)[e][t]) '
            'for e in Ent for t in Type)'),
        'processors-untouched': 'self._sorted_processors == old(self._sorted_processors) and '
                                'self._processors == old(self._processors)',
    }, havoc=HAVOC, vars={'entity': Ent})
    spec.loop(W + '_clear_dead_entities', 1, index='i', seq='types', invariants={
        'wf': 'wf(self)',
        'entity-popped': 'entity in old(self._dead_entities) and not (entity in self._dead_entities)'
                         ' and entity in old(self._entities)',
        'marks-shrink': 'all(implies(x in self._dead_entities, x in old(self._dead_entities)) '
                        'for x in Ent)',
        'types-are-the-old-row': 'all(implies(0 <= k and k < len(types), '
                                 'types[k] in old(self._entities)[entity]) for k in Int)',
        'row-shrinks': (
            'all(' + ATT + ' == (' + OLD_ATT + ' and not (e in old(self._dead_entities) and '
            'not (e in self._dead_entities) and not (e == entity and not (pos(t) < i)))) and '
            'implies(' + ATT + ', self._entities[e][t] == old(self._entities)[e][t]) '
            'for e in Ent for t in Type)'),
        'processors-untouched': 'self._sorted_processors == old(self._sorted_processors) and '
                                'self._processors == old(self._processors)',
    }, havoc=HAVOC)

    # ------------------------------------------------------------- entities
    C(W + 'entities', params=P, props=['C01', 'C05'], requires=["wf(self, 'W')"], returns=TList(Ent),
      ensures={
          'only-living': 'all(implies(0 <= i and i < len(result), result[i] in self._entities and '
                         'not (result[i] in self._dead_entities)) for i in Int)',
          'all-living': 'all(implies(e in self._entities and not (e in self._dead_entities), '
                        'any(0 <= i and i < len(result) and result[i] == e for i in Int)) '
                        'for e in Ent)',
          'each-once': 'all(implies(0 <= i and i < j and j < len(result), result[i] != result[j]) '
                       'for i in Int for j in Int)',
      })

    # ------------------------------------------------------------- process
    def deletes_first(X, short):
        """C05: the pending deletions are applied before any processor runs."""
        first_proc = None
        clear_at = None
        for n, ev in enumerate(X.events):
            if ev[0] == 'open' and ev[1] == 'Processor.process' and first_proc is None:
                first_proc = n
            if ev[0] == 'call' and ev[1].endswith('._clear_dead_entities') and clear_at is None:
                clear_at = n
        ok = clear_at is not None and (first_proc is None or clear_at < first_proc)
        X.oblige(short + ':deletes-before-processors', z3.BoolVal(ok), kind='order', role='prop',
                 assume_after=False)
    ran = ("len(plog()) == len(old(plog())) + len(self._sorted_processors) and "
           "is_prefix(old(plog()), plog()) and "
           "all(plog()[len(old(plog())) + j] == call_proc(self._sorted_processors[j], dt) "
           "for j in range(len(self._sorted_processors)))")
    c = C(W + 'process', params=dict(P, dt=TReal), props=['C05', 'C07'], requires=wfall,
          modifies=ALLSTATE + ['self._dispatch_enabled', 'ghost:plog'],
          open_effect=True,
          ensures={'wf': ("wf(self)", 'prop'),
                   'once-each-in-order': ran,
                   'processor-list-untouched':
                       'self._sorted_processors == old(self._sorted_processors) and '
                       'self._processors == old(self._processors)'},
          raises={'KeyError': {'wf': ("wf(self)", 'prop')},
                  '$OtherException': {'wf': ("wf(self)", 'prop')}})
    c.path_checks = [deletes_first]
    spec.sites['World.process'] = {
        'reenter': True,
        'client_fields': ['_components', '_entities', '_dead_entities', '_events', '_handlers',
                          '_event_queue', '_dispatch_enabled'],
        'rely': [('processors-do-not-add-or-remove-processors-of-the-world-being-processed',
                  'self._sorted_processors == old(self._sorted_processors) and '
                  'self._processors == old(self._processors)')]}
    spec.loop(W + 'process', 0, index='i', seq='procs', invariants={
        'wf': 'wf(self)',
        'list-untouched': 'self._sorted_processors == old(self._sorted_processors) and '
                          'self._processors == old(self._processors)',
        'ran-prefix': ("len(plog()) == len(old(plog())) + i and is_prefix(old(plog()), plog()) and "
                       "all(plog()[len(old(plog())) + j] == call_proc(self._sorted_processors[j], dt) "
                       "for j in range(i))"),
    }, havoc=HAVOC + ['self._dispatch_enabled', 'ghost:plog', 'ghost:alive', 'ghost:dlog'])


_register1 = register


def register(spec):     # noqa: F811
    _register1(spec)
    register_lifecycle(spec)


def register_processors(spec):
    from . import bisect_spec
    bisect_spec.register(spec)
    C = spec.contract
    wfall = ["wf(self)"]
    P = dict(self=World)
    PSTATE = ['self._sorted_processors', 'self._processors'] + DISP_STATE
    SP = 'self._sorted_processors'
    OSP = 'old(self._sorted_processors)'

    def proc_cb(p, event):
        return ("call_cb(class_attr(typeof(%s), ev_get(typeof(%s), '%s')), %s, pack(), kw_empty())"
                % (p, p, event, p))

    def proc_lifecycle(p, event, cond):
        c = proc_cb(p, event)
        relay = "qe('on_single_dispatch', pack('%s', %s), kw_empty())" % (event, p)
        has = "(has_events(typeof(%s)) and ev_has(typeof(%s), '%s'))" % (p, p, event)
        return {
            event + '-once-when-enabled': (
                "implies(%s and %s and old(self._dispatch_enabled), cnt(%s) == old(cnt(%s)) + 1)"
                % (cond, has, c, c)),
            event + '-postponed-not-lost': (
                "implies(%s and %s and not old(self._dispatch_enabled), "
                "len(self._event_queue) >= 1 and "
                "self._event_queue[len(self._event_queue) - 1] == %s)" % (cond, has, relay)),
            event + '-nothing-else-called': (
                "all(implies(not (%s and %s and old(self._dispatch_enabled) and c == %s), "
                "cnt(c) == old(cnt(c))) for c in Call)" % (cond, has, c)),
        }

    # ------------------------------------------------------ remove_processor
    MATCH = 'U in old(self._processors)'
    found = 'any(desc(processor_type, U) and %s for U in Type)' % MATCH
    ens = {
        'wf': ("wf(self)", 'prop'),
        'nothing-to-remove': 'implies(not %s, result == None and %s == %s and '
                             'self._processors == old(self._processors))' % (found, SP, OSP),
        'removes-one-matching': (
            'implies(%s, desc(processor_type, S) and S in old(self._processors) and '
            'result == old(self._processors)[S] and not (S in self._processors) and '
            'all(implies(t != S, (t in self._processors) == (t in old(self._processors)) and '
            'implies(t in self._processors, self._processors[t] == old(self._processors)[t])) '
            'for t in Type))' % found),
        'exact-type-preferred': 'implies(processor_type in old(self._processors), S == processor_type)',
        'gone-from-the-list': 'implies(%s, all(implies(0 <= i and i < len(%s), %s[i] != result) '
                              'for i in Int))' % (found, SP, SP),
        # list' is an order-preserving sublist of the old list (ghost maps src/dst) ...
        'others-keep-their-order': (
            'implies(%s, len(%s) <= len(%s) and '
            'all(implies(0 <= i and i < len(%s), 0 <= src[i] and src[i] < len(%s) and '
            '%s[i] == %s[src[i]]) for i in Int) and '
            'all(implies(0 <= i and i < j and j < len(%s), src[i] < src[j]) for i in Int for j in Int))'
            % (found, SP, OSP, SP, OSP, SP, OSP, SP)),
        # ... that drops nothing but the removed processor
        'only-the-removed-is-dropped': (
            'implies(%s, all(implies(0 <= j and j < len(%s) and %s[j] != result, '
            '0 <= dst[j] and dst[j] < len(%s) and src[dst[j]] == j) for j in Int))'
            % (found, OSP, OSP, SP)),
        'entities-untouched': 'self._entities == old(self._entities) and '
                              'self._components == old(self._components) and '
                              'self._dead_entities == old(self._dead_entities)',
        'flag-untouched': 'self._dispatch_enabled == old(self._dispatch_enabled)',
        'queued-events-stay-queued': 'implies(not old(self._dispatch_enabled), '
                                     'is_prefix(old(self._event_queue), self._event_queue))',
        'unregistered': 'implies(%s and has_events(typeof(result)), '
                        'not (wref(result) in self._handlers))' % found,
        'other-handlers-kept': 'all(implies(not (%s and r == wref(result)), '
                               '(r in self._handlers) == (r in old(self._handlers))) for r in Ref)'
                               % found,
    }
    ens.update(proc_lifecycle('result', 'on_remove', found))
    C(W + 'remove_processor', params=dict(P, processor_type=TypeS), props=['C06', 'C07'],
      requires=wfall + ['processor_type != None'], returns=Proc, modifies=PSTATE,
      ghost_results={'S': ('local', 'subtype', TypeS),
                     'src': ('expr', 'filter_src(self._sorted_processors)',
                             TScalar(z3.ArraySort(z3.IntSort(), z3.IntSort()))),
                     'dst': ('expr', 'filter_dst(self._sorted_processors)',
                             TScalar(z3.ArraySort(z3.IntSort(), z3.IntSort())))},
      ensures=ens,
      raises={'AssertionError': {'not-a-processor-type': 'not desc(Processor, processor_type)',
                                 'unchanged': 'unchanged_except(self, "")'},
              '$OtherException': {'from-callback-only': found, 'wf': ("wf(self)", 'prop')}})
    walk_loop(spec, W + 'remove_processor', 0, 'processor_type', 'S in self._processors',
              extra={'nothing-removed-yet': 'unchanged_except(self, "")',
                     'counters-untouched': 'all(cnt(c) == old(cnt(c)) for c in Call)'})

    # --------------------------------------------------------- get_processor
    C(W + 'get_processor', params=dict(P, processor_type=TypeS), props=['C06', 'C07'],
      requires=["wf(self, 'P')", 'processor_type != None'], returns=Proc,
      ghost_results={'S': ('local', 'subtype', TypeS)},
      ensures={
          'found-is-registered-subtype': (
              'implies(any(desc(processor_type, U) and U in self._processors for U in Type), '
              'desc(processor_type, S) and S in self._processors and result == self._processors[S])'),
          'exact-type-preferred': 'implies(processor_type in self._processors, '
                                  'result == self._processors[processor_type])',
          'none-iff-none': 'implies(all(not (desc(processor_type, U) and U in self._processors) '
                           'for U in Type), result == None)',
      })
    walk_loop(spec, W + 'get_processor', 0, 'processor_type', 'S in self._processors')

    C(W + 'processors', params=P, props=['C07'], requires=["wf(self, 'P')"],
      ensures={'execution-order': 'len(result) == len(%s) and all(implies(0 <= i and i < len(result), '
                                  'result[i] == %s[i]) for i in Int)' % (SP, SP)})

    # --------------------------------------------------------- add_processor
    ens = {
        'wf': ("wf(self)", 'prop'),
        'registered-under-its-type': 'typeof(processor) in self._processors and '
                                     'self._processors[typeof(processor)] == processor',
        'other-types-kept': 'all(implies(t != typeof(processor), (t in self._processors) == '
                            '(t in old(self._processors)) and implies(t in self._processors, '
                            'self._processors[t] == old(self._processors)[t])) for t in Type)',
        'explicit-priority': 'implies(priority != None, processor.priority == priority)',
        'default-priority-kept': 'implies(priority == None, processor.priority == old(processor.priority))',
        'knows-its-world': 'processor.world == self',
        'listed-once-at': 'let(p=apos, body=0 <= p and p < len(%s) and %s[p] == processor)' % (SP, SP),
        # after every processor of lower or equal priority, before every higher one
        'after-equal-priorities': 'all(implies(0 <= i and i < apos, %s[i].priority <= processor.priority) '
                                  'for i in Int)' % SP,
        'before-higher-priorities': 'all(implies(apos < i and i < len(%s), '
                                    'processor.priority < %s[i].priority) for i in Int)' % (SP, SP),
        'entities-untouched': 'self._entities == old(self._entities) and '
                              'self._components == old(self._components) and '
                              'self._dead_entities == old(self._dead_entities)',
        'registered-as-handler': 'implies(has_events(typeof(processor)), wref(processor) in self._handlers)',
        'flag-untouched': 'self._dispatch_enabled == old(self._dispatch_enabled)',
        'queued-events-stay-queued': 'implies(not old(self._dispatch_enabled), '
                                     'is_prefix(old(self._event_queue), self._event_queue))',
    }
    ens.update(proc_lifecycle('processor', 'on_add', 'True'))
    # a replaced processor of the same exact type gets on_remove (remove_processor's
    # contract): that call is the only other one
    replaced = 'old(self._processors)[typeof(processor)]'
    rcall = proc_cb(replaced, 'on_remove')
    acall = proc_cb('processor', 'on_add')
    was = '(typeof(processor) in old(self._processors))'
    has_add = "(has_events(typeof(processor)) and ev_has(typeof(processor), 'on_add'))"
    ens['on_add-once-when-enabled'] = (
        "implies(%s and old(self._dispatch_enabled) and not (%s and %s == %s), "
        "cnt(%s) == old(cnt(%s)) + 1)" % (has_add, was, rcall, acall, acall, acall))
    ens['on_add-nothing-else-called'] = (
        "all(implies(not (%s and old(self._dispatch_enabled) and c == %s) and "
        "not (%s and c == %s), cnt(c) == old(cnt(c))) for c in Call)" % (has_add, acall, was, rcall))
    ens['replaced-gets-on_remove'] = (
        "implies(%s and has_events(typeof(%s)) and ev_has(typeof(%s), 'on_remove') and "
        "old(self._dispatch_enabled) and %s != %s, cnt(%s) == old(cnt(%s)) + 1)"
        % (was, replaced, replaced, rcall, acall, rcall, rcall))
    ens['replaced-not-listed'] = (
        "implies(%s and %s != processor, all(implies(0 <= i and i < len(%s), %s[i] != %s) "
        "for i in Int))" % (was, replaced, SP, SP, replaced))
    C(W + 'add_processor', params=dict(P, processor=Proc, priority=TOpt(TInt)), props=['C07'],
      requires=wfall + ['processor != None', 'alive(processor)'],
      modifies=PSTATE + ['processor.priority', 'processor.world'],
      ghost_results={'apos': ('expr', 'index_in(self._sorted_processors, processor)', TInt)},
      ensures=ens,
      raises={'AssertionError': {'only-for-a-non-processor': 'processor == None or '
                                                            'not desc(Processor, typeof(processor))'},
              '$OtherException': {'from-callback-only': 'True'}})


_register2 = register


def register(spec):     # noqa: F811
    _register2(spec)
    register_processors(spec)


def register_get(spec):
    """get/_get: each attached component whose type descends from the queried type is
    yielded exactly once (ghost counter `ycnt` over the yielded pairs)."""
    C = spec.contract
    P = dict(self=World)
    YT = TScalar(z3.ArraySort(EC.sort, z3.IntSort()))

    spec.ghost_decls['ycnt'] = YT

    def ycnt_arr(X):
        if 'ycnt' not in X.ghost:
            spec.havoc_ghost(X, 'ycnt')
        v = X.ghost['ycnt']
        return v.t if isinstance(v, ZV) else v
    spec.define('ycnt', lambda X, p: ZV(ycnt_arr(X)[deref(p).t]))
    fresh_gen = 'all(ycnt(x) == 0 for x in EC)'      # a generator that has yielded nothing yet

    def yield_hook(X, v):
        """`yield e, c` in World._get: one more occurrence of the pair."""
        t = EC.make(deref(v).items)
        a = ycnt_arr(X)
        X.ghost['ycnt'] = ZV(z3.Store(a, t, a[t] + 1))
    spec.yield_hooks = getattr(spec, 'yield_hooks', {})
    spec.yield_hooks['desper.logic.world.World._get'] = yield_hook

    listed = ('(desc(component_type, typeof(ec_c(x))) and ec_e(x) in self._entities and '
              'typeof(ec_c(x)) in self._entities[ec_e(x)] and '
              'self._entities[ec_e(x)][typeof(ec_c(x))] == ec_c(x))')
    ens = {'exactly-one-pair-per-attached-subtype-component':
           'all(ycnt(x) == (1 if %s else 0) for x in EC)' % listed}
    C(W + '_get', params=dict(P, component_type=TypeS), props=['C01', 'C06'],
      requires=["wf(self, 'W')", 'component_type != None', fresh_gen], modifies=['ghost:ycnt'],
      returns=TList(EC), ensures=ens)
    spec.note_assumption('list(generator) holds each value exactly as often as the generator '
                         'yields it: World.get returns the pairs counted by the ghost ycnt of World._get (T1)')
    # outer walk: `visited` = subtypes already reported
    def wit_init(X, env):
        return ZV(z3.K(TypeS.sort, z3.IntVal(0)))

    def wit_step(X, now, head):
        w = deref(head['wit']).t
        fr = deref(head['fringe'])
        n = fr.n
        F = fr.at(n - 1).t
        new = z3.Const(X.fresh_name('wit'), w.sort())
        S = z3.Const('S_w', TypeS.sort)
        X.assume(forall([S], new[S] == z3.If(w[S] < n - 1, w[S], n - 1 + prelude.next_sub(F, S)),
                        patterns=[new[S]]))
        return ZV(new)
    reported = ('(typeof(ec_c(x)) in visited and ec_e(x) in self._entities and '
                'typeof(ec_c(x)) in self._entities[ec_e(x)] and '
                'self._entities[ec_e(x)][typeof(ec_c(x))] == ec_c(x))')
    spec.loop(W + '_get', 0, invariants={
        'fringe-below-root': 'all(implies(0 <= k and k < len(fringe), desc(component_type, fringe[k]) '
                             'and fringe[k] != None) for k in Int)',
        'visited-below-root': 'all(implies(S in visited, desc(component_type, S)) for S in Type)',
        'unvisited-below-fringe': 'all(implies(desc(component_type, S) and not (S in visited), '
                                  '0 <= wit[S] and wit[S] < len(fringe) and desc(fringe[wit[S]], S)) '
                                  'for S in Type)',
        'reported-once': 'all(ycnt(x) == (1 if %s else 0) for x in EC)' % reported,
    }, vars={'fringe': TList(TypeS), 'subtype': TypeS, 'visited': TSet(TypeS), 'entity': Ent},
        ghost={'wit': (TScalar(z3.ArraySort(TypeS.sort, z3.IntSort())), wit_init, wit_step)},
        havoc=['ghost:ycnt'])
    inner = ('(typeof(ec_c(x)) in visited and ec_e(x) in self._entities and '
             'typeof(ec_c(x)) in self._entities[ec_e(x)] and '
             'self._entities[ec_e(x)][typeof(ec_c(x))] == ec_c(x) and '
             '(typeof(ec_c(x)) != subtype or pos(ec_e(x)) < i))')
    spec.loop(W + '_get', 1, index='i', seq='owners', invariants={
        'reported-once': 'all(ycnt(x) == (1 if %s else 0) for x in EC)' % inner,
        'current-visited': 'subtype in visited',
    }, havoc=['ghost:ycnt'])

    C(W + 'get', params=dict(P, component_type=TypeS), props=['C01', 'C06'],
      requires=["wf(self, 'W')", 'component_type != None', fresh_gen], modifies=['ghost:ycnt'],
      ensures={'lists-what-_get-yields': ens['exactly-one-pair-per-attached-subtype-component']})


_register3 = register


def register(spec):     # noqa: F811
    _register3(spec)
    register_get(spec)


def register_clear(spec):
    C = spec.contract
    P = dict(self=World)
    ALL = ['self._components', 'self._entities', 'self._dead_entities', 'self._never', 'self._sorted_processors',
           'self._processors', 'self.id_generator', 'self._dispatch_enabled'] + DISP_STATE
    HAVOC = ['self._components', 'self._entities', 'self._dead_entities', 'self._events',
             'self._handlers', 'self._event_queue', 'self._sorted_processors', 'self._processors',
             'ghost:log', 'ghost:cnt']

    def factory_call(X, f, args, kwargs, node):
        if f.t.sort().name() == 'Factory':
            return X.fresh(IdGen, 'new_idgen')
        return None
    prev = getattr(spec, 'call_object_hook', None)

    def hook(X, f, args, kwargs, node):
        r = factory_call(X, f, args, kwargs, node)
        if r is not None:
            return r
        return prev(X, f, args, kwargs, node)
    spec.call_object_hook = hook

    # the constructor establishes the class invariant (the base case of every wf argument)
    C(W + '__init__', params=dict(self=World, id_generator_factory=TSort('Factory')), props=['C01', 'C02'],
      # what allocation provides: a live object of (a subclass of) World - a class-level fact
      # is R3 - whose class-level default _dispatch_enabled = True has been seeded
      requires=['alive(self)', "wf(self, 'R3')", 'self._dispatch_enabled'],
      modifies=ALL + ['self.id_generator_factory'],
      ensures={
          'wf': ("wf(self)", 'prop'),
          'nothing-attached': 'all(not ' + ATT + ' for e in Ent for t in Type)',
          'nothing-pending': 'all(not (x in self._dead_entities) for x in Ent)',
          'no-processor': 'all(not (t in self._processors) for t in Type) and '
                          'len(self._sorted_processors) == 0',
          'listens-to-itself': 'wref(self) in self._handlers',
          'enabled-and-nothing-queued': 'self._dispatch_enabled and len(self._event_queue) == 0',
      })
    C(W + 'clear', params=P, props=['C01', 'C02'], requires=["wf(self)"], modifies=ALL,
      ensures={
          'wf': ("wf(self)", 'prop'),
          'nothing-attached': 'all(not ' + ATT + ' for e in Ent for t in Type)',
          'nothing-pending': 'all(not (x in self._dead_entities) for x in Ent)',
          'no-processor-left': 'all(not (t in self._processors) for t in Type) and '
                               'all(not (0 <= i and i < len(self._sorted_processors)) for i in Int)',
          'world-still-listens': 'wref(self) in self._handlers',
          'enabled-and-nothing-queued': 'self._dispatch_enabled and len(self._event_queue) == 0',
      },
      raises={'$OtherException': {'from-callback-only': 'True'}})
    spec.loop(W + 'clear', 0, index='i', seq='ents', invariants={
        'wf': 'wf(self)',
        'rows-shrink': ('all(' + ATT + ' == (' + OLD_ATT + ' and not (pos(e) < i)) and '
                        'implies(' + ATT + ', self._entities[e][t] == old(self._entities)[e][t]) '
                        'for e in Ent for t in Type)'),
        'processors-untouched': 'self._sorted_processors == old(self._sorted_processors) and '
                                'self._processors == old(self._processors)',
    }, havoc=HAVOC)
    spec.loop(W + 'clear', 1, index='i', seq='procs', invariants={
        'wf': 'wf(self)',
        'nothing-attached': 'all(not ' + ATT + ' for e in Ent for t in Type)',
        'nothing-pending': 'all(not (x in self._dead_entities) for x in Ent)',
        'snapshot': 'procs == old(self._sorted_processors)',
        'remaining-are-later': (
            'all(implies(t in self._processors, t in old(self._processors) and '
            'self._processors[t] == old(self._processors)[t] and '
            'index_in(procs, old(self._processors)[t]) >= i) for t in Type)'),
        'later-remain': (
            'all(implies(i <= k and k < len(procs), typeof(procs[k]) in self._processors and '
            'self._processors[typeof(procs[k])] == procs[k]) for k in Int)'),
    }, havoc=HAVOC)


_register4 = register


def register(spec):     # noqa: F811
    _register4(spec)
    register_clear(spec)


def register_create(spec):
    C = spec.contract
    P = dict(self=World)
    CIDX = TScalar(z3.ArraySort(TypeS.sort, z3.IntSort()))
    ID = '(entity_id0 if entity_id0 != None else auto_id)'

    # well-formed arguments: pairwise different exact types (ghost cidx: type -> its
    # position), live instances that are not attached anywhere, a new identifier
    wellformed = [
        "wf(self)",
        'all(implies(0 <= j and j < len(components), cidx[typeof(components[j])] == j and '
        'components[j] != None and alive(components[j])) for j in Int)',
        'all(implies(' + ATT + ' and 0 <= j and j < len(components), '
        'self._entities[e][t] != components[j]) for e in Ent for t in Type for j in Int)',
        'entity_id == None or not (entity_id in self._entities)',
    ]
    mine = '(0 <= cidx[t] and cidx[t] < %s and typeof(components[cidx[t]]) == t)'

    def view(n, ident):
        return ('all((' + ATT + ') == (' + OLD_ATT + ' or (e == %s and %s)) and '
                'implies(' + ATT + ', self._entities[e][t] == (components[cidx[t]] '
                'if (e == %s and %s) else old(self._entities)[e][t])) for e in Ent for t in Type)'
                ) % (ident, mine % n, ident, mine % n)

    def on_add_call(c):
        return cb_call(c, 'on_add', 'result', 'self')
    has_add = "(has_events(typeof(%s)) and ev_has(typeof(%s), 'on_add'))"
    ens = {
        'wf': ("wf(self)", 'prop'),
        'returns-the-given-id': 'implies(entity_id != None, result == entity_id)',
        'view': view('len(components)', 'result'),
        'pending-marks-untouched': 'self._dead_entities == old(self._dead_entities)',
        'processors-untouched': 'self._sorted_processors == old(self._sorted_processors) and '
                                'self._processors == old(self._processors)',
        'handlers-registered': 'all(implies(0 <= j and j < len(components) and '
                               'has_events(typeof(components[j])), '
                               'wref(components[j]) in self._handlers) for j in Int)',
        'on_add-once-each-when-enabled': (
            'implies(old(self._dispatch_enabled), all(implies(0 <= j and j < len(components) and '
            + (has_add % ('components[j]', 'components[j]')) + ', cnt(' + on_add_call('components[j]')
            + ') == old(cnt(' + on_add_call('components[j]') + ')) + 1) for j in Int))'),
        'nothing-called-when-disabled': 'implies(not old(self._dispatch_enabled), '
                                        'all(cnt(c) == old(cnt(c)) for c in Call))',
        'postponed-in-order': (
            'implies(not old(self._dispatch_enabled), is_prefix(old(self._event_queue), self._event_queue) '
            'and all(implies(0 <= j and j < len(components) and '
            + (has_add % ('components[j]', 'components[j]')) +
            ', len(old(self._event_queue)) <= rpos[j] and rpos[j] < len(self._event_queue) and '
            "self._event_queue[rpos[j]] == qe('on_single_dispatch', "
            "pack('on_add', components[j], result, self), kw_empty())) for j in Int) and "
            'all(implies(0 <= j and j < k and k < len(components) and '
            + (has_add % ('components[j]', 'components[j]')) + ' and '
            + (has_add % ('components[k]', 'components[k]')) + ', rpos[j] < rpos[k]) '
            'for j in Int for k in Int))'),
        'flag-untouched': 'self._dispatch_enabled == old(self._dispatch_enabled)',
    }
    RP = TScalar(z3.ArraySort(z3.IntSort(), z3.IntSort()))
    c = C(W + 'create_entity', params={'self': World, 'components': TList(Comp), 'entity_id': Ent,
                                       '$cidx': CIDX},
          props=['C01', 'C02'], requires=wellformed, returns=Ent,
          modifies=['self._components', 'self._entities'] + DISP_STATE,
          ghost_results={'rpos': ('named', 'rpos', RP)}, ensures=ens,
          raises={'$OtherException': {'from-callback-only': 'True'}})
    c.assume_fresh_ids = True
    spec.sites['World.create_entity'] = {
        'reenter': False, 'check_wf': True, 'wf_only': 'W,P,Disp,R2,R3'}
    spec.note_assumption('site World.create_entity: on_add callbacks run while the later components '
                         'of the same call are attached but not yet registered as listeners (R1 is '
                         'not claimed at these callbacks; desper registers after attaching by design)')
    HAVOC1 = ['self._components', 'self._entities']
    spec.loop(W + 'create_entity', 0, index='i', seq='comps', invariants={
        'wf-W': "wf(self, 'W')",
        # handlers are registered in the second loop: R1 holds for the old attachments
        'R1-old': ('all(implies(' + OLD_ATT + ' and has_events(t), '
                   'wref(old(self._entities)[e][t]) in self._handlers) for e in Ent for t in Type)'),
        'id': 'entity_id != None and entity_id == ' + ID + ' and not (entity_id in old(self._entities))',
        'view': view('i', 'entity_id'),
        'snapshot': 'comps == components',
    }, havoc=HAVOC1, vars={'component': Comp, 'component_type': TypeS})

    def rpos_init(X, env):
        return ZV(z3.K(z3.IntSort(), z3.IntVal(0)))

    def rpos_step(X, now, head):
        # position of the relay queued for component i (if one was queued)
        r = deref(head['rpos']).t
        i = deref(head['i']).t
        q0 = deref(X.read_field(deref(head['self']).t, '_event_queue'))
        return ZV(z3.Store(r, i, q0.n - 1))
    spec.loop(W + 'create_entity', 1, index='i', seq='comps', ghost={'rpos': (RP, rpos_init, rpos_step)},
              invariants={
        'wf-but-R1': "wf(self, 'W,P,Disp,R2,R3')",
        # components i.. of the new entity are attached but not registered yet
        'R1-partial': ('all(implies(' + ATT + ' and has_events(t) and not (e == entity_id and '
                       + (mine % 'len(components)') + ' and cidx[t] >= i), '
                       'wref(self._entities[e][t]) in self._handlers) for e in Ent for t in Type)'),
        'id': 'entity_id != None and entity_id == ' + ID + ' and not (entity_id in old(self._entities))',
        'view': view('len(components)', 'entity_id'),
        'tables-settled': 'self._dead_entities == old(self._dead_entities) and '
                          'self._sorted_processors == old(self._sorted_processors) and '
                          'self._processors == old(self._processors) and '
                          'self._dispatch_enabled == old(self._dispatch_enabled)',
        'snapshot': 'comps == components',
        'handlers-registered': 'all(implies(0 <= j and j < i and has_events(typeof(components[j])), '
                               'wref(components[j]) in self._handlers) for j in Int)',
        'on_add-once-each-when-enabled': (
            'implies(old(self._dispatch_enabled), all(implies(0 <= j and j < i and '
            + (has_add % ('components[j]', 'components[j]')) + ', cnt('
            + cb_call('components[j]', 'on_add', 'entity_id', 'self') + ') == old(cnt('
            + cb_call('components[j]', 'on_add', 'entity_id', 'self') + ')) + 1) for j in Int) and '
            'all(implies(i <= j and j < len(components), cnt('
            + cb_call('components[j]', 'on_add', 'entity_id', 'self') + ') == old(cnt('
            + cb_call('components[j]', 'on_add', 'entity_id', 'self') + '))) for j in Int))'),
        'nothing-called-when-disabled': 'implies(not old(self._dispatch_enabled), '
                                        'all(cnt(c) == old(cnt(c)) for c in Call))',
        'postponed-in-order': (
            'implies(not old(self._dispatch_enabled), is_prefix(old(self._event_queue), self._event_queue) '
            'and all(implies(0 <= j and j < i and '
            + (has_add % ('components[j]', 'components[j]')) +
            ', len(old(self._event_queue)) <= rpos[j] and rpos[j] < len(self._event_queue) and '
            "self._event_queue[rpos[j]] == qe('on_single_dispatch', "
            "pack('on_add', components[j], entity_id, self), kw_empty())) for j in Int) and "
            'all(implies(0 <= j and j < k and k < i and '
            + (has_add % ('components[j]', 'components[j]')) + ' and '
            + (has_add % ('components[k]', 'components[k]')) + ', rpos[j] < rpos[k]) '
            'for j in Int for k in Int))'),
        'queue-untouched-when-enabled': 'implies(old(self._dispatch_enabled), '
                                        'self._event_queue == old(self._event_queue))',
    }, havoc=['self._events', 'self._handlers', 'self._event_queue', 'ghost:log', 'ghost:cnt'],
        vars={'component': Comp})

    # D02: the automatic identifier may name an entity that already owns components
    C(W + 'create_entity#auto-id', params={'self': World, 'components': lambda X, n: TupV([]),
                                           'entity_id': lambda X, n: NONE},
      props=['C01'], requires=["wf(self)"], returns=Ent,
      modifies=['self._components', 'self._entities'] + DISP_STATE,
      ensures={'auto-id-fresh': 'not (result in old(self._entities))'})


def register_create_replace(spec):
    """D03: create_entity on an identifier that already owns a component of the same
    exact type replaces it silently (no on_remove, the old one stays registered)."""
    C = spec.contract
    oldc = 'old(self._entities)[entity_id][typeof(components[0])]'
    C(W + 'create_entity#replace',
      params={'self': World, 'components': lambda X, n: TupV([ZV(z3.Const('p_newcomp', Comp.sort))]),
              'entity_id': Ent},
      props=['C02'],
      requires=["wf(self)", 'entity_id != None and entity_id in self._entities',
                'components[0] != None and alive(components[0])',
                'typeof(components[0]) in self._entities[entity_id]',
                'self._entities[entity_id][typeof(components[0])] != components[0]',
                'has_events(typeof(components[0]))',
                'all(implies(' + ATT + ', self._entities[e][t] != components[0]) '
                'for e in Ent for t in Type)'],
      returns=Ent, modifies=['self._components', 'self._entities'] + DISP_STATE,
      ensures={'replaced-stops-listening': 'not (wref(%s) in self._handlers)' % oldc},
      raises={'$OtherException': {'from-callback-only': 'True'}})


_register5 = register


def register(spec):     # noqa: F811
    _register5(spec)
    register_create(spec)
    register_create_replace(spec)
