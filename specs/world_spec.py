"""Contracts for desper/logic/world.py: C01 (queries agree), C02 (lifecycle
callbacks), C05 (deferred deletion), C06 (type queries), C07 (processors).

Abstract view: att(w) = {(e, t) -> w._entities[e][t]}.  Inner dicts and index
sets are values owned by the world (they never escape: checked syntactically by
the engine's aliasing rule), so the nested tables are modelled as nested maps.
"""
import z3

from pyvc import theory as T, prelude
from pyvc.sym import forall
from pyvc.sym import (Con, ZV, TupV, SetV, DictV, ListV, TScalar, TBool, TInt, TReal, TSet,
                      TDict, TList, TSort, usort, none_of, deref, NONE, TOpt)
from pyvc.exec import OpenFn, BoundMethod, Builtin, ClassLevel, ExcV, PyRaise, ClassV
from . import events_spec as EV

W = 'desper.logic.world.World.'

Ent = TSort('Ent')
Comp = TSort('Comp')
Proc = TSort('Proc')
TypeS = TSort('Type')
World = TSort('World')
IdGen = TSort('IdGen')
Str = EV.Str
EC = T.TTupleSort('EC', [('ec_e', Ent), ('ec_c', Comp)])

WORLD_FIELDS = dict(
    _components=TDict(TypeS, TSet(Ent)),
    _entities=TDict(Ent, TDict(TypeS, Comp)),
    _dead_entities=TSet(Ent),
    _sorted_processors=TList(Proc),
    _processors=TDict(TypeS, Proc),
    id_generator=IdGen,
    id_generator_factory=TSort('Factory'),
)

WF_W = {
    # the index is the transpose of the table
    'I1': ("all((t in self._components and e in self._components[t]) == "
           "(e in self._entities and t in self._entities[e]) for e in Ent for t in Type)", 'prop'),
    # no empty index set, no empty entity row (entities/entity_exists read dom(_entities))
    # (an empty index set would be harmless for every query: not part of wf; stating
    #  it together with I1 and I2b makes E-matching chase witnesses forever)
    'I2b': ("all(implies(e in self._entities, nonempty(self._entities[e])) for e in Ent)", 'prop'),
    # a component is stored under its exact type
    'I3': ("all(implies(e in self._entities and t in self._entities[e], "
           "typeof(self._entities[e][t]) == t and self._entities[e][t] != None) "
           "for e in Ent for t in Type)", 'prop'),
    'I4': ("not (None in self._entities) and not (None in self._components)", 'aux'),
    # usage assumption carried as an invariant: a component instance is attached at
    # most once (add_component/create_entity require it of their arguments)
    'U1': ("all(implies(e in self._entities and t in self._entities[e] and "
           "e2 in self._entities and t2 in self._entities[e2] and "
           "self._entities[e][t] == self._entities[e2][t2], e == e2 and t == t2) "
           "for e in Ent for t in Type for e2 in Ent for t2 in Type)", 'aux'),
}

WF_P = {
    # table and execution list describe the same processors, one per exact type
    'P1': ("all(implies(0 <= i and i < len(self._sorted_processors), "
           "self._sorted_processors[i] != None and "
           "typeof(self._sorted_processors[i]) in self._processors and "
           "self._processors[typeof(self._sorted_processors[i])] == self._sorted_processors[i]) "
           "for i in Int)", 'prop'),
    'P2': ("all(implies(t in self._processors, typeof(self._processors[t]) == t and "
           "any(0 <= i and i < len(self._sorted_processors) and "
           "self._sorted_processors[i] == self._processors[t] for i in Int)) for t in Type)", 'prop'),
    'P3': ("all(implies(0 <= i and i < j and j < len(self._sorted_processors), "
           "self._sorted_processors[i] != self._sorted_processors[j]) for i in Int for j in Int)", 'prop'),
    # non-decreasing priority
    'P4': ("all(implies(0 <= i and i < j and j < len(self._sorted_processors), "
           "self._sorted_processors[i].priority <= self._sorted_processors[j].priority) "
           "for i in Int for j in Int)", 'prop'),
    'P5': ("len(self._sorted_processors) >= 0 and not (None in self._processors)", 'aux'),
}

# C02: an attached handler component is registered; the world listens to itself
WF_R = {
    'R1': ("all(implies(e in self._entities and t in self._entities[e] and has_events(t), "
           "wref(self._entities[e][t]) in self._handlers) for e in Ent for t in Type)", 'prop'),
    'R2': ("wref(self) in self._handlers", 'prop'),
}


def declare(spec):
    """Sorts, classes and hooks for World (shared with logic/loop/model specs)."""
    if getattr(spec, '_world_common', False):
        return
    spec._world_common = True
    EV.declare_common(spec)
    for n in ('Ent', 'Comp', 'Proc', 'World', 'IdGen', 'EC', 'Factory'):
        spec.sort_name(n, EC.sort if n == 'EC' else None)
    T.declare_injection('Comp', 'Handler')
    T.declare_injection('Proc', 'Handler')
    T.declare_injection('World', 'Handler')

    disp = spec.klass(None, 'DispBase', fields=EV.DISP_FIELDS)
    EV.add_dispatcher_invariants(disp)
    # contracts of the inherited EventDispatcher methods are polymorphic in self
    if 'desper.events.EventDispatcher' not in spec.class_by_qual:
        D = spec.klass('desper.events.EventDispatcher', 'Disp', fields=EV.DISP_FIELDS)
        EV.add_dispatcher_invariants(D)
        EV.register_dispatcher_contracts(spec, 'Disp')
    D = spec.class_by_qual['desper.events.EventDispatcher']
    Wk = spec.klass('desper.logic.world.World', 'World', fields=WORLD_FIELDS, parent=D)
    for name, (text, role) in list(WF_W.items()) + list(WF_P.items()) + list(WF_R.items()):
        Wk.invariant(name, text, role)
    Wk.groups = {'W': list(WF_W), 'P': list(WF_P), 'R': list(WF_R)}
    # class-level fact read from the real decorator on World (T4: a World subclass
    # does not remap the relay event): @event_handler(on_single_dispatch='...')
    import ast as _ast
    m, cdef = spec.repo.klass('desper.logic.world.World')
    for dec in cdef.decorator_list:
        if isinstance(dec, _ast.Call) and getattr(dec.func, 'id', '') == 'event_handler':
            for kw in dec.keywords:
                if isinstance(kw.value, _ast.Constant):
                    Wk.invariant('R3', "ev_has(typeof(self), '%s') and ev_get(typeof(self), '%s') == '%s'"
                                 % (kw.arg, kw.arg, kw.value.value), 'aux')
                    Wk.groups['R'].append('R3')
    spec.klass(None, 'Ent')
    spec.klass(None, 'IdGen')
    spec.klass(None, 'Factory')
    Ck = spec.klass(None, 'Comp', fields={'__events__': ClassLevel(T.events_of)})
    Pk = spec.klass('desper.logic.world.Processor', 'Proc',
                    fields={'world': World, 'priority': TInt,
                            '__events__': ClassLevel(T.events_of)})
    Tk = spec.klass(None, 'Type')

    def subclasses(X, obj, node):
        def fn(X, args, kw, node):
            t = obj.t
            X.assume(prelude.subs_len(t) >= 0)
            return ListV(TypeS, prelude.subs_len(t), [prelude.subs_arr(t)])
        return Builtin('__subclasses__', fn)
    Tk.attr_hooks['__subclasses__'] = subclasses

    spec.hasattr_hooks[('Comp', '__events__')] = lambda X, v: ZV(T.has_events(prelude.type_of(X, v.t)))
    spec.hasattr_hooks[('Proc', '__events__')] = lambda X, v: ZV(T.has_events(prelude.type_of(X, v.t)))

    d = spec.define
    d('desc', lambda X, a, b: ZV(prelude.desc(tt(X, a), tt(X, b))))
    d('ec', lambda X, e, c: ZV(EC.make([e, c])))

    def nonempty(X, c):
        c = deref(c)
        arr = c.arr if isinstance(c, SetV) else c.dom
        return ZV(arr != z3.K(c.K.sort, z3.BoolVal(False)))
    d('nonempty', nonempty)
    d('ec_e', lambda X, x: ZV(EC.dt.ec_e(deref(x).t)))
    d('ec_c', lambda X, x: ZV(EC.dt.ec_c(deref(x).t)))

    # processors are open code
    def proc_process(X, f, recv, args, kwargs, node):
        if f.kind != 'proc.process':
            return None
        dt = T._coerce(args[0], z3.RealSort())
        c = T.call_term('proc', deref(recv).t, dt)
        site = spec.site_config(X, node)
        return (T.open_site(X, c, node, reenter=site.get('reenter', True),
                            raises=site.get('raises'), name='Processor.process'),)
    spec.open_handlers.append(proc_process)
    Pk.open_methods['process'] = OpenFn(None, kind='proc.process', name='Processor.process')

    # next(self.id_generator): any identifier the generator may produce
    def next_hook(X, v, node):
        if isinstance(v, ZV) and v.t.sort().name() == 'IdGen':
            r = X.fresh(Ent, 'auto_id')
            X.events.append(('next_id', r))
            X.named_ghosts['auto_id'] = r
            return r
        X.unsupported('next(%r)' % (v,), node)
    spec.next_hook = next_hook


def tt(X, v):
    v = deref(v)
    if isinstance(v, ClassV):
        return prelude.class_term(X, v)
    return v.t


# ===================================================================== walks

def walk_loop(spec, qual, ordinal, root, match, extra=None, havoc=None, ghost_extra=None):
    """Invariants of a `fringe` walk over __subclasses__():
    (a) every fringe element descends from the root; (b) every still unexamined
    match is below some fringe element (ghost witness `wit`); (c) once the first
    element (the root itself) has been examined without returning, the root is
    not a match (exact-type priority)."""
    def wit_init(X, env):
        return ZV(z3.K(TypeS.sort, z3.IntVal(0)))

    def wit_step(X, now, head):
        w = deref(head['wit']).t
        fr = deref(head['fringe'])
        n = fr.n
        F = fr.at(n - 1).t
        new = z3.Const(X.fresh_name('wit'), w.sort())
        S = z3.Const('S_w', TypeS.sort)
        X.assume(forall([S], new[S] == z3.If(w[S] < n - 1, w[S], n - 1 + prelude.next_sub(F, S)),
                        patterns=[new[S]]))
        return ZV(new)
    inv = {
        'fringe-below-root': 'all(implies(0 <= k and k < len(fringe), desc(%s, fringe[k]) and '
                             'fringe[k] != None) for k in Int)' % root,
        'matches-below-fringe': 'all(implies(desc(%s, S) and (%s), 0 <= wit[S] and '
                                'wit[S] < len(fringe) and desc(fringe[wit[S]], S)) for S in Type)'
                                % (root, match),
        'exact-type-first': 'let(S=%s, body=first or not (%s))' % (root, match),
        'first-means-root': 'implies(first, len(fringe) == 1 and fringe[0] == %s)' % root,
    }
    inv.update(extra or {})
    ghost = {'wit': (TScalar(z3.ArraySort(TypeS.sort, z3.IntSort())), wit_init, wit_step),
             'first': (TBool, 'True', 'False')}
    ghost.update(ghost_extra or {})
    spec.loop(qual, ordinal, invariants=inv, vars={'fringe': TList(TypeS), 'subtype': TypeS},
              ghost=ghost, havoc=havoc or [])


# ================================================================= contracts

ATT = "(e in self._entities and t in self._entities[e])"
OLD_ATT = "(e in old(self._entities) and t in old(self._entities)[e])"


def register(spec):
    declare(spec)
    C = spec.contract
    spec.site_prefix['World.'] = {'reenter': False, 'check_wf': True}
    wfW = ["wf(self, 'W')"]
    wfall = ["wf(self)"]
    P = dict(self=World)
    req_type = ['component_type != None']

    # ---------------------------------------------------------------- queries
    C(W + 'entity_exists', params=dict(P, entity=Ent), props=['C01', 'C05'], requires=wfW,
      returns=TBool, ensures={
          'owns-a-component-and-not-pending':
              'result == (entity in self._entities and nonempty(self._entities[entity]) '
              'and not (entity in self._dead_entities))'})
    C(W + 'get_components', params=dict(P, entity=Ent), props=['C01'], requires=wfW,
      ensures={
          'only-attached': (
              'all(implies(0 <= i and i < len(result), entity in self._entities and '
              'typeof(result[i]) in self._entities[entity] and '
              'self._entities[entity][typeof(result[i])] == result[i]) for i in Int)'),
          'all-attached': (
              'all(implies(entity in self._entities and t in self._entities[entity], '
              'any(0 <= i and i < len(result) and result[i] == self._entities[entity][t] '
              'for i in Int)) for t in Type)'),
          'none-when-unknown': 'implies(not (entity in self._entities), len(result) == 0)',
      })
    C(W + 'has_component', params=dict(P, entity=Ent, component_type=TypeS), props=['C01', 'C06'],
      requires=wfW + req_type, returns=TBool,
      ghost_results={'S': ('local', 'subtype', TypeS)},
      ensures={
          'sound': 'implies(result, desc(component_type, S) and entity in self._entities and '
                   'S in self._entities[entity])',
          'complete': 'implies(not result, all(not (desc(component_type, U) and '
                      'entity in self._entities and U in self._entities[entity]) for U in Type))',
      })
    walk_loop(spec, W + 'has_component', 0, 'component_type',
              'entity in self._entities and S in self._entities[entity]')
    C(W + 'get_component', params=dict(P, entity=Ent, component_type=TypeS, default=Comp),
      props=['C01', 'C06'], requires=wfW + req_type, returns=Comp,
      ghost_results={'S': ('local', 'subtype', TypeS)},
      ensures={
          'found-is-attached-subtype': (
              'implies(any(desc(component_type, U) and entity in self._entities and '
              'U in self._entities[entity] for U in Type), '
              'desc(component_type, S) and entity in self._entities and '
              'S in self._entities[entity] and result == self._entities[entity][S])'),
          'exact-type-preferred': (
              'implies(entity in self._entities and component_type in self._entities[entity], '
              'result == self._entities[entity][component_type])'),
          'default-iff-none': (
              'implies(all(not (desc(component_type, U) and entity in self._entities and '
              'U in self._entities[entity]) for U in Type), result == default)'),
      })
    walk_loop(spec, W + 'get_component', 0, 'component_type',
              'entity in self._entities and S in self._entities[entity]')

    # ---------------------------------------------------------- delete_entity
    C(W + 'delete_entity', params=dict(P, entity=Ent, immediate=TBool), props=['C01', 'C05'],
      requires=wfall,
      modifies=['self._components', 'self._entities', 'self._dead_entities'],
      ensures={
          'wf': ("wf(self, 'W')", 'prop'),
          'deferred-only-marks': (
              'implies(not immediate, self._entities == old(self._entities) and '
              'self._components == old(self._components) and '
              'all((x in self._dead_entities) == (x in old(self._dead_entities) or x == entity) '
              'for x in Ent))'),
          'immediate-removes-row': (
              'implies(immediate, not (entity in self._entities) and '
              'all(implies(e != entity, (e in self._entities) == (e in old(self._entities)) and '
              'all(' + ATT + ' == ' + OLD_ATT + ' and implies(' + ATT + ', '
              'self._entities[e][t] == old(self._entities)[e][t]) for t in Type)) for e in Ent))'),
      },
      raises={'KeyError': {'only-unknown-immediate': 'immediate and not (entity in old(self._entities))',
                           'unchanged': 'self._entities == old(self._entities)'}})
    spec.loop(W + 'delete_entity', 0, index='i', seq='types', invariants={
        'table-unchanged': 'self._entities == old(self._entities) and '
                           'self._dead_entities == old(self._dead_entities)',
        'index-shrinks': (
            'all((t in self._components and e in self._components[t]) == '
            '(t in old(self._components) and e in old(self._components)[t] and '
            'not (e == entity and t in old(self._entities)[entity] and pos(t) < i)) '
            'for e in Ent for t in Type)'),
        'no-new-index': 'all(implies(t in self._components, t in old(self._components)) for t in Type)',
    }, havoc=['self._components'])


# row `entity` lost exactly (entity, S); everything else as before
def att_minus(ent, typ):
    return ("all((" + ATT + ") == (" + OLD_ATT + " and not (e == %s and t == %s)) and "
            "implies(" + ATT + ", self._entities[e][t] == old(self._entities)[e][t]) "
            "for e in Ent for t in Type)") % (ent, typ)


def att_plus(ent, typ, comp):
    return ("all((" + ATT + ") == (" + OLD_ATT + " or (e == %s and t == %s)) and "
            "implies(" + ATT + ", self._entities[e][t] == "
            "(%s if (e == %s and t == %s) else old(self._entities)[e][t])) "
            "for e in Ent for t in Type)") % (ent, typ, comp, ent, typ)


ATT_SAME = ("all((" + ATT + ") == (" + OLD_ATT + ") and implies(" + ATT + ", "
            "self._entities[e][t] == old(self._entities)[e][t]) for e in Ent for t in Type)")


def cb_call(comp, event, *args):
    """The call record of `comp`'s callback for `event` with the given arguments."""
    return ("call_cb(class_attr(typeof(%s), ev_get(typeof(%s), '%s')), %s, pack(%s), kw_empty())"
            % (comp, comp, event, comp, ', '.join(args)))


def lifecycle(comp, event, ent, cond):
    """C02 clauses for one attach/detach of `comp` (condition `cond` = it happened)."""
    c = cb_call(comp, event, ent, 'self')
    relay = "qe('on_single_dispatch', pack('%s', %s, %s, self), kw_empty())" % (event, comp, ent)
    has = "(has_events(typeof(%s)) and ev_has(typeof(%s), '%s'))" % (comp, comp, event)
    return {
        event + '-once-when-enabled': (
            "implies(%s and %s and old(self._dispatch_enabled), cnt(%s) == old(cnt(%s)) + 1 and "
            "all(implies(c != %s, cnt(c) == old(cnt(c))) for c in Call) and "
            "self._event_queue == old(self._event_queue))" % (cond, has, c, c, c)),
        event + '-postponed-not-lost': (
            "implies(%s and %s and not old(self._dispatch_enabled), "
            "all(cnt(c) == old(cnt(c)) for c in Call) and "
            "len(self._event_queue) == len(old(self._event_queue)) + 1 and "
            "is_prefix(old(self._event_queue), self._event_queue) and "
            "self._event_queue[len(old(self._event_queue))] == %s)" % (cond, has, relay)),
        event + '-nothing-otherwise': (
            "implies(not (%s and %s), all(cnt(c) == old(cnt(c)) for c in Call) and "
            "self._event_queue == old(self._event_queue))" % (cond, has)),
    }


DISP_STATE = ['self._events', 'self._handlers', 'self._event_queue', 'ghost:log', 'ghost:cnt']


def register_mutators(spec):
    C = spec.contract
    wfall = ["wf(self)"]
    P = dict(self=World)
    MATCH = 'entity in old(self._entities) and U in old(self._entities)[entity]'
    found = 'any(desc(component_type, U) and %s for U in Type)' % MATCH

    ens = {
        'wf': ("wf(self)", 'prop'),
        'nothing-to-remove': 'implies(not %s, result == None and %s and '
                             'self._components == old(self._components))' % (found, ATT_SAME),
        'removes-one-matching': (
            'implies(%s, desc(component_type, S) and entity in old(self._entities) and '
            'S in old(self._entities)[entity] and result == old(self._entities)[entity][S] and %s)'
            % (found, att_minus('entity', 'S'))),
        'exact-type-preferred': (
            'implies(entity in old(self._entities) and component_type in '
            'old(self._entities)[entity], S == component_type)'),
        'pending-mark-untouched': 'self._dead_entities == old(self._dead_entities)',
        'processors-untouched': 'self._sorted_processors == old(self._sorted_processors) and '
                                'self._processors == old(self._processors)',
        'unregistered': 'implies(%s and has_events(typeof(result)), '
                        'not (wref(result) in self._handlers))' % found,
        'other-handlers-kept': 'all(implies(not (%s and r == wref(result)), '
                               '(r in self._handlers) == (r in old(self._handlers))) for r in Ref)'
                               % found,
        'flag-untouched': 'self._dispatch_enabled == old(self._dispatch_enabled)',
    }
    ens.update(lifecycle('result', 'on_remove', 'entity', found))
    C(W + 'remove_component', params=dict(P, entity=Ent, component_type=TypeS),
      props=['C01', 'C02', 'C06'], requires=wfall + ['component_type != None'], returns=Comp,
      modifies=['self._components', 'self._entities'] + DISP_STATE,
      ghost_results={'S': ('local', 'subtype', TypeS)}, ensures=ens,
      raises={'$OtherException': {'from-callback-only': found}})
    walk_loop(spec, W + 'remove_component', 0, 'component_type',
              'entity in self._entities and S in self._entities[entity]',
              extra={
                  'nothing-removed-yet': 'removed == None and unchanged_except(self, "")',
                  'counters-untouched': 'all(cnt(c) == old(cnt(c)) for c in Call)',
              })
    spec.loops[(W + 'remove_component', 0)].vars['removed'] = Comp

    ens = {
        'wf': ("wf(self)", 'prop'),
        'view': att_plus('entity', 'typeof(component)', 'component'),
        'pending-mark-untouched': 'self._dead_entities == old(self._dead_entities)',
        'processors-untouched': 'self._sorted_processors == old(self._sorted_processors) and '
                                'self._processors == old(self._processors)',
        'registered': 'implies(has_events(typeof(component)), wref(component) in self._handlers)',
        'flag-untouched': 'self._dispatch_enabled == old(self._dispatch_enabled)',
    }
    C(W + 'add_component', params=dict(P, entity=Ent, component=Comp), props=['C01', 'C02'],
      requires=wfall + ['component != None', 'entity != None', 'alive(component)',
                        # the instance is not attached anywhere else
                        'all(implies(e in self._entities and t in self._entities[e] and '
                        'self._entities[e][t] == component, e == entity) '
                        'for e in Ent for t in Type)'],
      modifies=['self._components', 'self._entities'] + DISP_STATE,
      ensures=ens, raises={'$OtherException': {'from-callback-only': 'True'}})


_register0 = register


def register(spec):     # noqa: F811
    _register0(spec)
    register_mutators(spec)
