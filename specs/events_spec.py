"""Contracts for desper/events.py: C03 (enabled delivery), C04 (deferred release),
C10 (weak handlers).

Model (T1/T4): a weak reference is a function `wref` of its (identity-compared)
referent; `tuple(... for ... in handler.__events__.items())` is modelled as the
set of its elements (duplicate-free by construction, iteration order arbitrary);
`__events__` is a class-level mapping that is not mutated while registered.
"""
import z3

from pyvc import theory as T, prelude
from pyvc.sym import forall
from pyvc.sym import TInt
from pyvc.sym import (Con, ZV, TupV, SetV, DictV, ListV, TScalar, TBool, TSet, TDict,
                      TList, TSort, usort, none_of, deref, NONE)
from pyvc.exec import OpenFn, BoundMethod, Builtin, ClassLevel, ExcV, PyRaise

E = 'desper.events.'

Str = TSort('Str')
Ref = TSort('Ref')
Handler = TSort('Handler')
Method = TSort('Method')
ArgPack = TSort('ArgPack')
KwPack = TSort('KwPack')
TypeS = TSort('Type')

RM = T.TTupleSort('RM', [('rm_ref', Ref), ('rm_meth', Method)])
SM = T.TTupleSort('SM', [('sm_name', Str), ('sm_meth', Method)])
QE = T.TTupleSort('QE', [('qe_name', Str), ('qe_args', ArgPack), ('qe_kw', KwPack)])

CALLS = {
    'cb': [('m', Method.sort), ('recv', Handler.sort), ('a', ArgPack.sort), ('k', KwPack.sort)],
    'proc': [('p', usort('Proc')), ('dt', z3.RealSort())],
    'proc_cb': [('m', Method.sort), ('recv', usort('Proc'))],
    'next': [('g', usort('Gen'))],
    'load': [('h', usort('Handle'))],
    'time': [('l', usort('Loop'))],
    'other': [('id', z3.IntSort())],
    # desper.model: a world transform function applied to (handle, world); a type listed in a
    # world description / a handle factory of a populator rule called with argument packs
    'transform': [('f', usort('TransFn')), ('h', usort('WHandle')), ('w', usort('World'))],
    'construct': [('t', usort('Ctor')), ('a', ArgPack.sort), ('k', KwPack.sort)],
}

DISP_FIELDS = dict(
    _events=TDict(Str, TSet(RM)),
    _handlers=TDict(Ref, TSet(SM)),
    _event_queue=TList(QE),
    _dispatch_enabled=TBool,
)


def tfun(name, *sorts):
    return z3.Function(name, *sorts)


def declare_common(spec):
    """Sorts, call log and hooks shared by every spec that touches dispatchers."""
    if getattr(spec, '_events_common', False):
        return
    spec._events_common = True
    T.declare_calls(CALLS)
    spec.ghost_decls['log'] = TList(T.TCall())

    def havoc_cnt(X):
        X.ghost['cnt'] = z3.Const(X.fresh_name('cnt'), z3.ArraySort(T._call_dt, z3.IntSort()))
    spec.ghost_decls['cnt'] = havoc_cnt
    spec.sort_name('Call', T._call_dt)
    for n in ('Str', 'Ref', 'Handler', 'Method', 'ArgPack', 'KwPack', 'Type'):
        spec.sort_name(n)
    spec.sort_name('RM', RM.sort)
    spec.sort_name('SM', SM.sort)

    H = spec.klass(None, 'Handler', fields={'__events__': ClassLevel(T.events_of)})
    H.attr_hooks['__class__'] = lambda X, obj, node: ZV(prelude.type_of(X, obj.t))
    spec.klass(None, 'Ref')
    spec.klass(None, 'Method')

    # ---- spec vocabulary
    def d(name, fn):
        spec.define(name, fn)
    d('wref', lambda X, h: ZV(T.wref(T._coerce(h, Handler.sort))))
    d('referent', lambda X, r: ZV(T.referent(deref(r).t)))
    d('typeof', lambda X, o: ZV(prelude.type_of(X, deref(o).t)))
    d('class_attr', lambda X, t, n: ZV(T.class_attr(deref(t).t, T._coerce(n, Str.sort))))
    d('ev_has', lambda X, t, n: ZV(T.ev_dom(deref(t).t)[T._coerce(n, Str.sort)]))
    d('ev_get', lambda X, t, n: ZV(T.ev_val(deref(t).t)[T._coerce(n, Str.sort)]))
    d('has_events', lambda X, t: ZV(T.has_events(deref(t).t)))
    d('rm', lambda X, r, m: ZV(RM.make([r, m])))
    d('sm', lambda X, n, m: ZV(SM.make([n, m])))
    d('qe', lambda X, n, a, k: ZV(QE.make([n, a, k])))
    d('rm_ref', lambda X, x: ZV(RM.dt.rm_ref(deref(x).t)))
    d('rm_meth', lambda X, x: ZV(RM.dt.rm_meth(deref(x).t)))
    d('sm_name', lambda X, x: ZV(SM.dt.sm_name(deref(x).t)))
    d('sm_meth', lambda X, x: ZV(SM.dt.sm_meth(deref(x).t)))
    d('qe_name', lambda X, x: ZV(QE.dt.qe_name(deref(x).t)))
    d('call_cb', lambda X, m, h, a, k: ZV(T.call_term(
        'cb', deref(m).t, T._coerce(h, Handler.sort), T._coerce(a, ArgPack.sort),
        T._coerce(k, KwPack.sort))))
    d('log', lambda X: T.log_get(X))
    spec.ghost_decls['dlog'] = TList(QE)

    def dlog(X):
        if 'dlog' not in X.ghost:
            spec.havoc_ghost(X, 'dlog')
        return X.ghost['dlog']
    d('dlog', dlog)
    d('cnt', lambda X, c: ZV(T.cnt_get(X)[deref(c).t]))
    d('is_cb', lambda X, c: ZV(T._call_dt.is_call_cb(deref(c).t)))
    d('cb_m', lambda X, c: ZV(T._call_dt.cb_m(deref(c).t)))
    d('cb_recv', lambda X, c: ZV(T._call_dt.cb_recv(deref(c).t)))
    d('cb_a', lambda X, c: ZV(T._call_dt.cb_a(deref(c).t)))
    d('cb_k', lambda X, c: ZV(T._call_dt.cb_k(deref(c).t)))
    d('alive', lambda X, h: ZV(T.alive_get(X)[T._coerce(h, Handler.sort)]))
    d('pack', lambda X, *items: ZV(T.make_pack(items)))
    d('kw_empty', lambda X: ZV(T.EMPTY_KW))
    d('is_prefix', lambda X, a, b: ZV(list_prefix(deref(a), deref(b))))

    # ---- code hooks
    def isinstance_hooks():
        return {('Handler', 'EventHandler'):
                lambda X, v: z3.And(v.t != none_of(v.t.sort()),
                                    T.has_events(prelude.type_of(X, v.t)))}
    spec.isinstance_hooks = getattr(spec, 'isinstance_hooks', {})
    spec.isinstance_hooks.update(isinstance_hooks())
    spec.hasattr_hooks = getattr(spec, 'hasattr_hooks', {})

    def getattr_hook(X, obj, name, default, node):
        nt = T._coerce(name, Str.sort)
        if isinstance(obj, ZV) and obj.t.sort() == TypeS.sort:
            return ZV(T.class_attr(obj.t, nt))          # getattr(cls, name): function
        if isinstance(obj, ZV):
            # getattr(instance, name): bound method of the class-level function (T4)
            m = T.class_attr(prelude.type_of(X, obj.t), nt)
            return BoundMethod(obj, OpenFn(m, kind='method', name='callback'))
        X.unsupported('getattr(%r, symbolic)' % (obj,), node)
    spec.getattr_hook = getattr_hook

    def call_object_hook(X, f, args, kwargs, node):
        sn = f.t.sort().name()
        if sn == 'Ref':
            # handler_ref(): the referent, or None once it has been finalised
            h = T.referent(f.t)
            return ZV(z3.If(T.alive_get(X)[h], h, none_of(Handler.sort)))
        if sn == 'Method':
            # method_ref(receiver, *args, **kwargs)
            recv = args[0]
            return open_method_call(X, f.t, recv, args[1:], kwargs, node)
        X.unsupported('call of a %s object' % sn, node)
    spec.call_object_hook = call_object_hook

    def open_handler(X, f, recv, args, kwargs, node):
        if f.kind == 'method':
            return (open_method_call(X, f.term, recv, args, kwargs, node),)
        return None
    spec.open_handlers.append(open_handler)

    def weakref_ref(X):
        def ref(X, args, kw, node):
            return ZV(T.wref(T._coerce(args[0], Handler.sort)))
        return Builtin('weakref.ref', ref)
    spec.externals['weakref.ref'] = weakref_ref

    # things may die during an open call, nothing is resurrected
    def shrink_alive(X):
        old = T.alive_get(X)
        new = z3.Const(X.fresh_name('alive'), old.sort())
        h = z3.Const('h_al', Handler.sort)
        X.assume(forall([h], z3.Implies(new[h], old[h]), patterns=[new[h]]))
        X.ghost['alive'] = new
        # T7 for EVERY dispatcher: a handler that died is registered nowhere
        for sn, kl in list(spec.sort_classes.items()):
            kk, FT = X.field_decl(sn, '_handlers')
            if kk is None:
                continue
            leaves = X.heap_leaves(sn, '_handlers', FT)
            dd = z3.Const('d_al', usort(sn))
            r = z3.Const('r_al', Ref.sort)
            X.assume(forall([dd, r], z3.Implies(leaves[0][dd][r], new[T.referent(r)]),
                            patterns=[leaves[0][dd][r]]))
    spec.env_havocs.append(shrink_alive)
    spec.ghost_decls['alive'] = shrink_alive


def list_prefix(a, b):
    i = z3.Int('i_pre')
    conj = [a.n <= b.n]
    for x, y in zip(a.ats, b.ats):
        conj.append(forall([i], z3.Implies(z3.And(0 <= i, i < a.n), x[i] == y[i]),
                              patterns=[y[i]]))
    return z3.And(*conj)


def pack_of(X, args):
    if len(args) == 1 and isinstance(args[0], StarPackT):
        return deref(args[0].v).t
    if any(isinstance(a, StarPackT) for a in args):
        X.unsupported('mixed positional and opaque *args in an open call')
    return T.make_pack(args)


from pyvc.exec import StarPack as StarPackT   # noqa: E402


def kw_of(X, kwargs):
    if not kwargs:
        return T.EMPTY_KW
    if list(kwargs) == ['**']:
        return deref(kwargs['**']).t
    X.unsupported('keyword arguments in an open call')


def open_method_call(X, m, recv, args, kwargs, node):
    """A callback: method `m` called on `recv` with the given arguments."""
    recv_t = T._coerce(recv, Handler.sort)
    spec = X.spec
    # C10: no callback is ever invoked with a missing receiver
    X.cur_node = node
    X.oblige('%s:receiver-not-None' % X.fn_name, recv_t != none_of(Handler.sort),
             kind='receiver-alive', role='prop', assume_after=False)
    c = T.call_term('cb', m, recv_t, pack_of(X, args), kw_of(X, kwargs))
    site = spec.site_config(X, node)
    return T.open_site(X, c, node, result_T=None, reenter=site.get('reenter', True),
                       raises=site.get('raises'), name='callback',
                       check_wf=site.get('check_wf'))


# ================================================================== contracts

def register(spec):
    declare_common(spec)
    D = spec.klass(E + 'EventDispatcher', 'Disp', fields=DISP_FIELDS)
    add_dispatcher_invariants(D)
    register_dispatcher_contracts(spec, 'Disp')
    spec.sort_name('Disp')


WF_D = {
    # every stored (ref, method) pair belongs to a registered handler and is what
    # that handler's class maps the event to
    'E1': ("all(implies(n in self._events and x in self._events[n], "
           "rm_ref(x) in self._handlers and "
           "ev_has(typeof(referent(rm_ref(x))), n) and "
           "rm_meth(x) == class_attr(typeof(referent(rm_ref(x))), "
           "ev_get(typeof(referent(rm_ref(x))), n))) for n in Str for x in RM)"),
    # every registered handler is present under each of its events
    'E1b': ("all(implies(r in self._handlers and ev_has(typeof(referent(r)), n), "
            "n in self._events and rm(r, class_attr(typeof(referent(r)), "
            "ev_get(typeof(referent(r)), n))) in self._events[n]) for r in Ref for n in Str)"),
    # the removal list of a handler is exactly its (event, method) pairs
    'E2': ("all(implies(r in self._handlers, (s in self._handlers[r]) == "
           "(ev_has(typeof(referent(r)), sm_name(s)) and sm_meth(s) == "
           "class_attr(typeof(referent(r)), ev_get(typeof(referent(r)), sm_name(s))))) "
           "for r in Ref for s in SM)"),
    # stored references are references to live handlers (T7), never None
    'E3': ("all(implies(r in self._handlers, r == wref(referent(r)) and "
           "referent(r) != None and alive(referent(r))) for r in Ref)"),
    'Q': "len(self._event_queue) >= 0",
}


def add_dispatcher_invariants(kl):
    for name, text in WF_D.items():
        kl.invariant(name, text, role='prop' if name in ('E1', 'E1b', 'E2') else 'aux')
    # C04's quantifier: callbacks may raise, disable, dispatch, (un)register;
    # they do not clear the dispatcher or re-enable it during a release
    kl.rely.append(('queue-append-only', 'is_prefix(old(self._event_queue), self._event_queue)'))
    kl.rely.append(('no-nested-enable',
                    'implies(self._dispatch_enabled, old(self._dispatch_enabled) and '
                    'len(self._event_queue) == len(old(self._event_queue)))'))


def register_dispatcher_contracts(spec, sort):
    S = TSort(sort)
    C = spec.contract
    wf = ["wf(self, 'Disp')"]
    q = E + 'EventDispatcher.'

    # C04: (un)registration never touches the pending queue nor the flag - what was dispatched
    # while disabled is released to whoever is registered at delivery time
    PENDING = ('self._event_queue == old(self._event_queue) and '
               'self._dispatch_enabled == old(self._dispatch_enabled)')
    C(q + '__init__', params=dict(self=S), props=['C03'],
      modifies=['self._events', 'self._handlers', 'self._event_queue'],
      ensures={'init-wf': ("wf(self, 'Disp')", 'prop'),
               'empty': 'len(self._event_queue) == 0 and '
                        'all(not (n in self._events) for n in Str) and '
                        'all(not (r in self._handlers) for r in Ref)'})

    C(q + 'add_handler', params=dict(self=S, handler=Handler), props=['C03', 'C04', 'C10'],
      requires=wf + ['alive(handler)'],
      modifies=['self._events', 'self._handlers'],
      ensures={
          'wf': ("wf(self, 'Disp')", 'prop'),
          'pending-events-stay-pending': PENDING,
          'registered': 'wref(handler) in self._handlers',
          'others-unchanged': 'all(implies(r != wref(handler), (r in self._handlers) == '
                              '(r in old(self._handlers))) for r in Ref)',
      },
      raises={'AssertionError': {'not-a-handler': 'not has_events(typeof(handler)) or handler == None'}})

    C(q + 'is_handler', params=dict(self=S, handler=Handler), props=['C03'],
      requires=wf, returns=TBool,
      ensures={'reports-registration': 'result == (wref(handler) in self._handlers)'},
      raises={'AssertionError': {'not-a-handler': 'not has_events(typeof(handler)) or handler == None'}})

    C(q + '_remove_weak_handler', params=dict(self=S, handler_ref=Ref), props=['C03', 'C04', 'C10'],
      requires=wf, modifies=['self._events', 'self._handlers'],
      ensures={
          'wf': ("wf(self, 'Disp')", 'prop'),
          'pending-events-stay-pending': PENDING,
          'unregistered': 'not (handler_ref in self._handlers)',
          'gone-from-every-event': 'all(not (n in self._events and rm(handler_ref, m) in '
                                   'self._events[n]) for n in Str for m in Method)',
          'others-unchanged': 'all(implies(r != handler_ref, (r in self._handlers) == '
                              '(r in old(self._handlers))) for r in Ref)',
          'others-still-listen': 'all(implies(rm_ref(x) != handler_ref and n in old(self._events), '
                                 'n in self._events and (x in self._events[n]) == '
                                 '(x in old(self._events)[n])) for n in Str for x in RM)',
      })

    C(q + 'remove_handler', params=dict(self=S, handler=Handler), props=['C03', 'C04'],
      requires=wf, modifies=['self._events', 'self._handlers'],
      ensures={
          'wf': ("wf(self, 'Disp')", 'prop'),
          'pending-events-stay-pending': PENDING,
          'unregistered': 'not (wref(handler) in self._handlers)',
          'others-unchanged': 'all(implies(r != wref(handler), (r in self._handlers) == '
                              '(r in old(self._handlers))) for r in Ref)',
      })

    expected = ("(is_cb(c) and cb_a(c) == args and cb_k(c) == kwargs and "
                "event_name in old(self._events) and "
                "rm(wref(cb_recv(c)), cb_m(c)) in old(self._events)[event_name])")
    C(q + 'dispatch', params=dict(self=S, event_name=Str, args=ArgPack, kwargs=KwPack),
      props=['C02', 'C03', 'C04', 'C10'], requires=wf,
      modifies=['ghost:log', 'ghost:cnt'], open_effect=True,
      log_invocation=('dlog', 'qe(event_name, args, kwargs)'),
      ensures={
          'own-invocations-only': 'dlog() == old(dlog())',
          'wf': ("wf(self, 'Disp')", 'prop'),
          'unknown-silent': 'implies(not (event_name in old(self._events)), '
                            'all(cnt(c) == old(cnt(c)) for c in Call) and '
                            "unchanged_except(self, ''))",
          'disabled-defers': 'implies(event_name in old(self._events) and '
                             'not old(self._dispatch_enabled), '
                             'all(cnt(c) == old(cnt(c)) for c in Call) and '
                             'len(self._event_queue) == len(old(self._event_queue)) + 1 and '
                             'is_prefix(old(self._event_queue), self._event_queue) and '
                             'self._event_queue[len(old(self._event_queue))] == '
                             'qe(event_name, args, kwargs) and '
                             "unchanged_except(self, '_event_queue'))",
          'at-most-once-nothing-else': 'all((cnt(c) == old(cnt(c)) or (cnt(c) == old(cnt(c)) + 1 '
                                       'and old(self._dispatch_enabled) and ' + expected + ')) '
                                       'for c in Call)',
          'exactly-once-each-live-listener': (
              'implies(event_name in old(self._events) and old(self._dispatch_enabled), '
              'all(implies(x in old(self._events)[event_name] and alive(referent(rm_ref(x))), '
              'cnt(call_cb(rm_meth(x), referent(rm_ref(x)), args, kwargs)) == '
              'old(cnt(call_cb(rm_meth(x), referent(rm_ref(x)), args, kwargs))) + 1) for x in RM))'),
          'log-grows': 'is_prefix(old(log()), log())',
          'queue-append-only': 'is_prefix(old(self._event_queue), self._event_queue)',
          'no-nested-enable': 'implies(self._dispatch_enabled, old(self._dispatch_enabled) and '
                              'len(self._event_queue) == len(old(self._event_queue)))',
      },
      raises={'$OtherException': {
          'wf': ("wf(self, 'Disp')", 'prop'),
          'own-invocations-only': 'dlog() == old(dlog())',
          'only-from-callbacks': 'event_name in old(self._events) and old(self._dispatch_enabled)',
          'at-most-once-nothing-else': 'all((cnt(c) == old(cnt(c)) or (cnt(c) == old(cnt(c)) + 1 '
                                       'and ' + expected + ')) for c in Call)',
          'queue-append-only': 'is_prefix(old(self._event_queue), self._event_queue)',
          'no-nested-enable': 'implies(self._dispatch_enabled, old(self._dispatch_enabled) and '
                              'len(self._event_queue) == len(old(self._event_queue)))',
      }})

    C(q + 'dispatch_enabled', params=dict(self=S), props=['C04'], requires=wf, returns=TBool,
      ensures={'flag': 'result == self._dispatch_enabled'})

    released = (
        "0 <= k and k <= len(old(self._event_queue)) and "
        # the first k pending events were dispatched, once each, in order ...
        "len(dlog()) == len(old(dlog())) + k and is_prefix(old(dlog()), dlog()) and "
        "all(dlog()[len(old(dlog())) + j] == old(self._event_queue)[j] for j in range(k)) and "
        # ... and the others are still pending, in order, before anything queued meanwhile
        "len(self._event_queue) >= len(old(self._event_queue)) - k and "
        "all(self._event_queue[j] == old(self._event_queue)[k + j] "
        "for j in range(len(old(self._event_queue)) - k))")
    C(q + 'dispatch_enabled.setter', params=dict(self=S, value=TBool), props=['C02', 'C04', 'C10'],
      requires=wf, modifies=['ghost:log', 'ghost:cnt', 'ghost:dlog'], open_effect=True,
      ghost_results={'k': TInt},
      ensures={
          'wf': ("wf(self, 'Disp')", 'prop'),
          'disable-only-sets-flag': 'implies(not value, dlog() == old(dlog()) and '
                                    'all(cnt(c) == old(cnt(c)) for c in Call) and '
                                    'self._event_queue == old(self._event_queue) and '
                                    'not self._dispatch_enabled)',
          'released-once-in-order': 'implies(value, ' + released + ')',
          'released-all-or-disabled-again': 'implies(value, not self._dispatch_enabled or '
                                            '(len(self._event_queue) == 0 and '
                                            'k == len(old(self._event_queue))))',
      },
      raises={'$OtherException': {
          'wf': ("wf(self, 'Disp')", 'prop'),
          'only-when-enabling': 'value',
          # the event being delivered when the callback raised counts as delivered:
          # it is gone from the queue, the undelivered ones stay pending in order
          'raise-no-redelivery': (
              "0 <= k and k < len(old(self._event_queue)) and "
              "len(dlog()) == len(old(dlog())) + k + 1 and is_prefix(old(dlog()), dlog()) and "
              "all(dlog()[len(old(dlog())) + j] == old(self._event_queue)[j] "
              "for j in range(k + 1)) and "
              "len(self._event_queue) >= len(old(self._event_queue)) - k - 1 and "
              "all(self._event_queue[j] == old(self._event_queue)[k + 1 + j] "
              "for j in range(len(old(self._event_queue)) - k - 1))"),
      }})

    C(q + 'clear', params=dict(self=S), props=['C03'], requires=wf,
      modifies=['self._events', 'self._handlers', 'self._event_queue', 'self._dispatch_enabled'],
      ensures={'wf': ("wf(self, 'Disp')", 'prop'),
               'empty': 'len(self._event_queue) == 0 and self._dispatch_enabled and '
                        'all(not (r in self._handlers) for r in Ref) and '
                        'all(not (n in self._events) for n in Str)'})

    # ---- loops
    spec.loop(q + 'add_handler', 0, index='i', seq='keys', invariants={
        'handlers-unchanged': 'self._handlers == old(self._handlers)',
        'events-grow': (
            "all((n in self._events and x in self._events[n]) == "
            "((n in old(self._events) and x in old(self._events)[n]) or "
            "(ev_has(typeof(handler), n) and pos(n) < i and "
            "x == rm(wref(handler), class_attr(typeof(handler), ev_get(typeof(handler), n))))) "
            "for n in Str for x in RM)"),
    }, havoc=['self._events'])
    spec.loop(q + '_remove_weak_handler', 0, index='i', seq='pairs', invariants={
        'handlers-unchanged': 'self._handlers == old(self._handlers)',
        'events-shrink': (
            "all(implies(n in old(self._events), n in self._events and "
            "(x in self._events[n]) == (x in old(self._events)[n] and not "
            "(rm_ref(x) == handler_ref and sm(n, rm_meth(x)) in old(self._handlers)[handler_ref] "
            "and pos(sm(n, rm_meth(x))) < i))) for n in Str for x in RM)"),
        'no-new-events': 'all(implies(n in self._events, n in old(self._events)) for n in Str)',
    }, havoc=['self._events'])
    spec.loop(q + 'dispatch', 0, index='i', seq='ord', invariants={
        'wf': "wf(self, 'Disp')",
        'at-most-once-nothing-else': (
            'all((cnt(c) == old(cnt(c)) or (cnt(c) == old(cnt(c)) + 1 and ' + expected +
            ' and pos(rm(wref(cb_recv(c)), cb_m(c))) < i)) for c in Call)'),
        'exactly-once-each-live-listener': (
            'all(implies(x in old(self._events)[event_name] and pos(x) < i and '
            'alive(referent(rm_ref(x))), '
            'cnt(call_cb(rm_meth(x), referent(rm_ref(x)), args, kwargs)) == '
            'old(cnt(call_cb(rm_meth(x), referent(rm_ref(x)), args, kwargs))) + 1) for x in RM)'),
        'log-grows': 'is_prefix(old(log()), log())',
        'queue-append-only': 'is_prefix(old(self._event_queue), self._event_queue)',
        'no-nested-enable': 'implies(self._dispatch_enabled, '
                            'len(self._event_queue) == len(old(self._event_queue)))',
    }, havoc=['self._events', 'self._handlers', 'self._event_queue', 'self._dispatch_enabled',
              'ghost:log', 'ghost:alive', 'ghost:cnt'])
    spec.loop(q + 'dispatch_enabled.setter', 0, ghost={'k': (TInt, '0', 'k + 1')}, invariants={
        'wf': "wf(self, 'Disp')",
        'released-once-in-order': released,
        'still-enabled-means-nothing-queued': (
            'implies(self._dispatch_enabled, len(self._event_queue) == '
            'len(old(self._event_queue)) - k)'),
    }, decreases='len(self._event_queue) if self._dispatch_enabled else 0',
        havoc=['self._events', 'self._handlers', 'self._event_queue', 'self._dispatch_enabled',
               'ghost:log', 'ghost:alive', 'ghost:cnt', 'ghost:dlog'])


# ===================================================== the event_handler decorator

def register_decorator(spec):
    """`cls.__events__` is a dict OBJECT found through the class hierarchy; the
    decorator must build a fresh one for the decorated class and leave every other
    class, and every existing dict object, as it was."""
    EvMap = TSort('EvMap')
    Em = spec.klass(None, 'EvMap', fields={'m': TDict(Str, Str)})
    spec.sort_name('EvMap')
    CLS_EV = z3.ArraySort(TypeS.sort, EvMap.sort)

    def cls_ev(X):
        if 'cls_ev' not in X.ghost:
            X.ghost['cls_ev'] = z3.Const('cls_ev0', CLS_EV)
        return X.ghost['cls_ev']
    spec.ghost_decls['cls_ev'] = lambda X: X.ghost.__setitem__('cls_ev', z3.Const('cls_ev0', CLS_EV))
    spec.define('events_obj', lambda X, t: ZV(cls_ev(X)[deref(t).t]))
    spec.define('allocated', lambda X, o: ZV(spec.alloc_array(X, deref(o).t.sort())[deref(o).t]))

    Tk = spec.sort_classes.get('Type') or spec.klass(None, 'Type')

    def get_events(X, obj, node):
        o = cls_ev(X)[obj.t]
        if X.branch(o == none_of(EvMap.sort)):
            X.raise_('AttributeError', '__events__', node=node)
        spec.note_allocated(X, o)
        return ZV(o)
    Tk.attr_hooks['__events__'] = get_events

    def set_events(X, obj, v, node):
        v = deref(v)
        if isinstance(v, ZV) and v.t.sort() == EvMap.sort:
            new = v.t
        else:
            new = z3.Const(X.fresh_name('new_EvMap'), EvMap.sort)
            alloc = spec.alloc_array(X, EvMap.sort)
            X.assume(z3.Not(alloc[new]))
            X.assume(new != none_of(EvMap.sort))
            X.ghost['alloc_EvMap'] = z3.Store(alloc, new, True)
            X.write_field(new, 'm', as_dictv(X, v))
        X.ghost['cls_ev'] = z3.Store(cls_ev(X), obj.t, new)
    Tk.attr_store_hooks['__events__'] = set_events

    DT = TDict(Str, Str)

    def as_dictv(X, v):
        v = deref(v)
        if isinstance(v, ZV) and v.t.sort() == EvMap.sort:
            return deref(X.read_field(v.t, 'm'))
        if isinstance(v, Con) and v.v == {}:
            return DT.empty()
        if isinstance(v, DictV):
            return v
        if isinstance(v, ListV):
            # dict(zip(names, names)): every listed name maps to itself
            s = prelude.list_to_set(X, v, Str)
            vals = z3.Const(X.fresh_name('zipval'), z3.ArraySort(Str.sort, Str.sort))
            k = z3.Const('k_zip', Str.sort)
            X.assume(forall([k], vals[k] == k, patterns=[vals[k]]))
            return DictV(Str, Str, s.arr, [vals])
        X.unsupported('dict operand %r' % (v,))

    def union(X, a, b):
        """a | b : right-biased union, a new dict value."""
        dom = z3.Const(X.fresh_name('or_dom'), a.dom.sort())
        val = z3.Const(X.fresh_name('or_val'), a.vals[0].sort())
        k = z3.Const('k_or', Str.sort)
        X.assume(forall([k], dom[k] == z3.Or(a.dom[k], b.dom[k]), patterns=[dom[k]]))
        X.assume(forall([k], val[k] == z3.If(b.dom[k], b.vals[0][k], a.vals[0][k]), patterns=[val[k]]))
        return DictV(Str, Str, dom, [val])

    def is_dictish(v):
        return (isinstance(v, ZV) and v.t.sort() == EvMap.sort) or isinstance(v, DictV) or \
            (isinstance(v, Con) and v.v == {}) or isinstance(v, ZipV)

    def bitor(X, a, b, node):
        if is_dictish(a) and is_dictish(b):
            return union(X, as_dictv(X, zipped(X, a)), as_dictv(X, zipped(X, b)))
        return None
    spec.bitor_hooks = getattr(spec, 'bitor_hooks', []) + [bitor]

    def inplace_or(X, cur, rhs, node):
        if isinstance(cur, ZV) and cur.t.sort() == EvMap.sort:
            # dict.__ior__: the SAME object is updated
            new = union(X, as_dictv(X, cur), as_dictv(X, zipped(X, deref(rhs))))
            X.write_field(cur.t, 'm', new)
            return True
        return False
    spec.inplace_or_hooks = getattr(spec, 'inplace_or_hooks', []) + [inplace_or]

    class ZipV(ZV):
        pass

    def zipped(X, v):
        return v.names if isinstance(v, ZipV) else v

    # zip(names, names) / dict(zip(...)) over the symbolic *event_names
    prev_seq = spec.sequence_hook
    b = {}

    def my_zip(X, args, kw, node):
        vs = [deref(a) for a in args]
        if len(vs) == 2 and isinstance(vs[0], ListV) and vs[0] is vs[1] or (
                len(vs) == 2 and isinstance(vs[0], ListV) and isinstance(vs[1], ListV)
                and vs[0].n.eq(vs[1].n) and vs[0].ats[0].eq(vs[1].ats[0])):
            z = ZipV(z3.IntVal(0))
            z.names = vs[0]
            return z
        return None
    spec.builtin_overrides = getattr(spec, 'builtin_overrides', {})
    spec.builtin_overrides['zip'] = my_zip

    def my_dict(X, args, kw, node):
        if len(args) == 1 and isinstance(deref(args[0]), ZipV):
            return as_dictv(X, deref(args[0]).names)
        return None
    spec.builtin_overrides['dict'] = my_dict

    q = E + 'event_handler.<locals>.decorator'
    inh_has = '(old(events_obj(cls)) != None and n in old(events_obj(cls).m))'
    newmap = 'events_obj(cls).m'
    nothing = 'len(event_names) == 0 and all(not (n in event_mappings) for n in Str)'
    C = spec.contract
    C(q, params=dict(cls=TypeS), closure_params=dict(event_names=TList(Str), event_mappings=DT),
      props=['C03'], requires=['cls != None'], returns=TypeS,
      modifies=['ghost:cls_ev', 'EvMap.m'],
      ensures={
          'returns-the-class': 'result == cls',
          'nothing-to-add-nothing-changes': 'implies(%s, events_obj(cls) == old(events_obj(cls)))' % nothing,
          'mapping-domain': (
              'implies(not (%s), events_obj(cls) != None and all((n in %s) == (%s or '
              'any(0 <= i and i < len(event_names) and event_names[i] == n for i in Int) or '
              'n in event_mappings) for n in Str))' % (nothing, newmap, inh_has)),
          'own-override-inherited': (
              'implies(not (%s), all(implies(n in %s, %s[n] == (event_mappings[n] if n in event_mappings '
              'else (n if any(0 <= i and i < len(event_names) and event_names[i] == n for i in Int) '
              'else old(events_obj(cls).m)[n]))) for n in Str))' % (nothing, newmap, newmap)),
          'bases-unaltered': ('all(implies(t != cls, events_obj(t) == old(events_obj(t))) for t in Type) and '
                              'all(implies(old(allocated(o)), o.m == old(o.m)) for o in EvMap)'),
          'fresh-mapping-object': 'implies(not (%s), let(o=events_obj(cls), body=not old(allocated(o))))' % nothing,
      })


_register_ev0 = register


def register(spec):     # noqa: F811
    _register_ev0(spec)
    register_decorator(spec)
