"""Contracts for desper/bisect.py (C07: insort is insort_right, hence stable).

Elements are an abstract sort with a pure key function into the integers; the
version without a key compares integers directly."""
import z3

from pyvc import theory as T
from pyvc.sym import (Con, ZV, TupV, ListV, TScalar, TBool, TInt, TList, TSort, TOpt, usort,
                      deref, NONE)
from pyvc.exec import OpenFn, Builtin

B = 'desper.bisect.'
Elem = TSort('Elem')
KEYF = z3.Function('keyf', Elem.sort, z3.IntSort())


def key_param(X, name):
    return OpenFn(KEYF, kind='purefn', pure=True, name='key')


def register(spec):
    if getattr(spec, '_bisect', False):
        return
    spec._bisect = True
    spec.sort_name('Elem')
    spec.klass(None, 'Elem')

    def purefn(X, f, recv, args, kwargs, node):
        if f.kind != 'purefn':
            return None
        return (ZV(f.term(T._coerce(args[0], f.term.domain(0)))),)
    spec.open_handlers.append(purefn)

    def havoc_a(X, env):
        a = env['a']
        from pyvc.sym import Loc
        if isinstance(a, Loc):
            new = X.fresh(a.T, 'hv_list')
            a.set(new)
    C = spec.contract

    SORTED = ('all(implies(lo <= i and i < j and j < (len(a) if hi == None else hi), '
              'key(a[i]) <= key(a[j])) for i in Int for j in Int)')
    common = dict(
        requires=['hi == None or hi <= len(a)', 'lo <= (len(a) if hi == None else hi)', SORTED],
        returns=TInt,
        ensures={
            'within-bounds': 'implies(lo <= (len(a) if hi == None else hi), lo <= result and '
                             'result <= (len(a) if hi == None else hi))',
            'left-not-greater': 'all(implies(lo <= i and i < result, key(a[i]) <= x) for i in Int)',
            'right-greater': 'all(implies(result <= i and i < (len(a) if hi == None else hi), '
                             'x < key(a[i])) for i in Int)',
        },
        raises={'ValueError': {'only-negative-lo': 'lo < 0'}})
    C(B + 'bisect_right', params=dict(a=TList(Elem), x=TInt, lo=TInt, hi=TOpt(TInt), key=key_param),
      props=['C07'], **common)
    INV = {
        'bounds': 'lo0 <= lo and lo <= hi and hi <= (len(a) if hi0 == None else hi0)',
        'left-not-greater': 'all(implies(lo0 <= i and i < lo, key(a[i]) <= x) for i in Int)',
        'right-greater': 'all(implies(hi <= i and i < (len(a) if hi0 == None else hi0), '
                         'x < key(a[i])) for i in Int)',
    }
    # loop 0 is the branch without a key (elements compared directly), loop 1 the one with
    spec.loop(B + 'bisect_right', 0,
              invariants={k: v.replace('key(a[i])', 'a[i]') for k, v in INV.items()},
              vars={'hi': TInt, 'lo': TInt, 'mid': TInt}, decreases='hi - lo')
    spec.loop(B + 'bisect_right', 1, invariants=INV, vars={'hi': TInt, 'lo': TInt, 'mid': TInt},
              decreases='hi - lo')
    # without a key the elements themselves are compared (integers)
    nk = dict(common)
    nk['requires'] = [r.replace('key(a[i])', 'a[i]').replace('key(a[j])', 'a[j]') for r in common['requires']]
    nk['ensures'] = {k: v.replace('key(a[i])', 'a[i]') for k, v in common['ensures'].items()}
    C(B + 'bisect_right#nokey', params=dict(a=TList(TInt), x=TInt, lo=TInt, hi=TOpt(TInt),
                                           key=lambda X, n: NONE), props=['C07'], **nk)

    # ---- insort_right: a' = a[:p] + [x] + a[p:], p after every element with key <= key(x)
    C(B + 'insort_right', params=dict(a=TList(Elem), x=Elem, lo=TInt, hi=TOpt(TInt), key=key_param),
      props=['C07'],
      requires=['lo == 0 and hi == None',
                'all(implies(0 <= i and i < j and j < len(a), key(a[i]) <= key(a[j])) '
                'for i in Int for j in Int)'],
      modifies=[havoc_a],
      ghost_results={'p': ('local', 'lo', TInt)},
      ensures={
          'one-longer': 'len(a) == len(old(a)) + 1 and 0 <= p and p <= len(old(a))',
          'inserted': 'a[p] == x',
          'before-unchanged': 'all(implies(0 <= i and i < p, a[i] == old(a)[i]) for i in Int)',
          'after-shifted': 'all(implies(p < i and i <= len(old(a)), a[i] == old(a)[i - 1]) for i in Int)',
          'after-shifted-fwd': 'all(implies(p <= j and j < len(old(a)), a[j + 1] == old(a)[j]) for j in Int)',
          'stable-after-equal-keys': 'all(implies(0 <= i and i < p, key(old(a)[i]) <= key(x)) for i in Int)',
          'before-greater-keys': 'all(implies(p <= i and i < len(old(a)), key(x) < key(old(a)[i])) '
                                 'for i in Int)',
      })


def register_left(spec):
    """bisect_left / insort_left (not used by World, but `insort` is an alias that a
    change could retarget: then add_processor is checked against THIS contract and
    its stability obligation fails instead of the check erroring out)."""
    C = spec.contract
    SORTED = ('all(implies(lo <= i and i < j and j < (len(a) if hi == None else hi), '
              'key(a[i]) <= key(a[j])) for i in Int for j in Int)')
    C(B + 'bisect_left', params=dict(a=TList(Elem), x=TInt, lo=TInt, hi=TOpt(TInt), key=key_param),
      props=['C07'],
      requires=['hi == None or hi <= len(a)', 'lo <= (len(a) if hi == None else hi)', SORTED],
      returns=TInt,
      ensures={
          'within-bounds': 'lo <= result and result <= (len(a) if hi == None else hi)',
          'left-smaller': 'all(implies(lo <= i and i < result, key(a[i]) < x) for i in Int)',
          'right-not-smaller': 'all(implies(result <= i and i < (len(a) if hi == None else hi), '
                               'x <= key(a[i])) for i in Int)',
      },
      raises={'ValueError': {'only-negative-lo': 'lo < 0'}})
    INV = {
        'bounds': 'lo0 <= lo and lo <= hi and hi <= (len(a) if hi0 == None else hi0)',
        'left-smaller': 'all(implies(lo0 <= i and i < lo, key(a[i]) < x) for i in Int)',
        'right-not-smaller': 'all(implies(hi <= i and i < (len(a) if hi0 == None else hi0), '
                             'x <= key(a[i])) for i in Int)',
    }
    spec.loop(B + 'bisect_left', 0,
              invariants={k: v.replace('key(a[i])', 'a[i]') for k, v in INV.items()},
              vars={'hi': TInt, 'lo': TInt, 'mid': TInt}, decreases='hi - lo')
    spec.loop(B + 'bisect_left', 1, invariants=INV, vars={'hi': TInt, 'lo': TInt, 'mid': TInt},
              decreases='hi - lo')

    def havoc_a(X, env):
        a = env['a']
        from pyvc.sym import Loc
        if isinstance(a, Loc):
            a.set(X.fresh(a.T, 'hv_list'))
    C(B + 'insort_left', params=dict(a=TList(Elem), x=Elem, lo=TInt, hi=TOpt(TInt), key=key_param),
      props=['C07'],
      requires=['lo == 0 and hi == None',
                'all(implies(0 <= i and i < j and j < len(a), key(a[i]) <= key(a[j])) '
                'for i in Int for j in Int)'],
      modifies=[havoc_a], ghost_results={'p': ('local', 'lo', TInt)},
      ensures={
          'one-longer': 'len(a) == len(old(a)) + 1 and 0 <= p and p <= len(old(a))',
          'inserted': 'a[p] == x',
          'before-unchanged': 'all(implies(0 <= i and i < p, a[i] == old(a)[i]) for i in Int)',
          'after-shifted': 'all(implies(p < i and i <= len(old(a)), a[i] == old(a)[i - 1]) for i in Int)',
          'after-shifted-fwd': 'all(implies(p <= j and j < len(old(a)), a[j + 1] == old(a)[j]) for j in Int)',
          'before-smaller-keys': 'all(implies(0 <= i and i < p, key(old(a)[i]) < key(x)) for i in Int)',
          'after-not-smaller': 'all(implies(p <= i and i < len(old(a)), key(x) <= key(old(a)[i])) '
                               'for i in Int)',
      })


_reg0 = register


def register(spec):     # noqa: F811
    first = not getattr(spec, '_bisect', False)
    _reg0(spec)
    if first:
        register_left(spec)
