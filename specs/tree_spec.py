"""Contracts for desper/model/tree.py: C12 (Handle caches at most one load between
clears) and C11 (paths, shadowing, back-links of ResourceMap).

A key is an abstract string with its sequence of path components `parts(key)`
(prelude contract of str.split(sep): non-empty list).  `handles` (a ChainMap) is a
non-empty list of dict layers: lookup = first layer that has the key, writes, pop
and clear act on layer 0 (CPython semantics, T1)."""
import z3

from pyvc import theory as T, prelude
from pyvc.sym import forall
from pyvc.sym import (Con, ZV, TupV, SetV, DictV, ListV, Loc, TScalar, TBool, TInt, TSet, TDict,
                      TList, TSort, usort, none_of, deref, NONE)
from pyvc.exec import OpenFn, BoundMethod, Builtin, ClassLevel, ExcV, PyRaise, ClassV
from . import events_spec as EV

M = 'desper.model.tree.'
Str = EV.Str
Map = TSort('Map')
Handle = TSort('Handle')
Res = TSort('Res')


class TChain(TList):
    """collections.ChainMap as the list of its layers."""


CHAIN = TChain(TDict(Str, Handle))


def parts_len(k):
    return z3.Function('parts_len', Str.sort, z3.IntSort())(k)


def parts_arr(k):
    return z3.Function('parts_arr', Str.sort, z3.ArraySort(z3.IntSort(), Str.sort))(k)


def declare(spec):
    if getattr(spec, '_tree_common', False):
        return
    spec._tree_common = True
    EV.declare_common(spec)
    for n in ('Map', 'Handle', 'Res'):
        spec.sort_name(n)
    Hk = spec.klass(M + 'Handle', 'Handle', fields=dict(
        parent=Map, key=Str, _cache=Res, _cached=TBool))
    Mk = spec.klass(M + 'ResourceMap', 'Map', fields=dict(
        maps=TDict(Str, Map), handles=CHAIN, parent=Map, key=Str))
    spec.klass(None, 'Res')
    # Handle is made to be subclassed: a subclass may define __len__/__bool__, so the truth
    # value of a handle is an uninterpreted predicate (None is falsy), like that of a resource
    Hk.default_truthiness = False
    T.declare_class_of('Handle', M + 'Handle')
    T.declare_class_of('Map', M + 'ResourceMap')

    # Handle.load is user code (overridden by subclasses)
    Hk.open_methods['load'] = OpenFn(None, kind='load', name='Handle.load')

    def load_call(X, f, recv, args, kwargs, node):
        if f.kind != 'load':
            return None
        c = T.call_term('load', deref(recv).t)
        site = spec.site_config(X, node)
        return (T.open_site(X, c, node, result_T=Res, reenter=site.get('reenter', False),
                            check_wf=False, raises=site.get('raises'), name='Handle.load'),)
    spec.open_handlers.append(load_call)
    spec.note_assumption('Handle.load does not call its own handle nor modify the resource tree')
    spec.define('call_load', lambda X, h: ZV(T.call_term('load', deref(h).t)))

    # calling a handle object: Handle.__call__
    prev = getattr(spec, 'call_object_hook', None)

    def call_obj(X, f, args, kwargs, node):
        if f.t.sort().name() == 'Handle':
            r = X.repo.find_method(M + 'Handle', '__call__')
            m, fn, q = r
            from pyvc.exec import Closure
            return X.call(BoundMethod(f, Closure(fn, None, m, cls=q)), args, kwargs, node)
        if prev is not None:
            return prev(X, f, args, kwargs, node)
        X.unsupported('call of %r' % (f,), node)
    spec.call_object_hook = call_obj

    # key.split(sep): the path components
    Sk = spec.sort_classes.get('Str') or spec.klass(None, 'Str')

    def split_hook(X, obj, node):
        def fn(X, args, kw, node):
            k = obj.t
            X.assume(parts_len(k) >= 1)
            return ListV(Str, parts_len(k), [parts_arr(k)])
        return Builtin('str.split', fn)
    Sk.attr_hooks['split'] = split_hook
    spec.isinstance_hooks[('Str', 'str')] = lambda X, v: z3.BoolVal(True)
    spec.isinstance_hooks[('Map', 'Handle')] = lambda X, v: z3.BoolVal(False)
    spec.isinstance_hooks[('Handle', 'ResourceMap')] = lambda X, v: z3.BoolVal(False)
    spec.define('allocated', lambda X, o: ZV(spec.alloc_array(X, deref(o).t.sort())[deref(o).t]))
    spec.define('parts', lambda X, k: ListV(Str, parts_len(deref(k).t), [parts_arr(deref(k).t)]))

    # ---- ChainMap semantics on the list of layers
    def chain_first(layers, k):
        """Index of the first layer holding k (Skolem function of layers and key)."""
        f = z3.Function('chain_first', layers.ats[0].sort(), z3.IntSort(), Str.sort, z3.IntSort())
        return f(layers.ats[0], layers.n, k)

    def chain_has(X, layers, k):
        j = z3.Int('j_ch')
        w = chain_first(layers, k)
        # k in chain  <=>  some layer has it; then `w` is the first such layer
        X.assume(forall([j], z3.Implies(z3.And(0 <= j, j < layers.n, layers.ats[0][j][k]),
                                        z3.And(0 <= w, w <= j, layers.ats[0][w][k])),
                        patterns=[layers.ats[0][j]]))
        X.assume(forall([j], z3.Implies(z3.And(0 <= j, j < w), z3.Not(layers.ats[0][j][k])),
                        patterns=[layers.ats[0][j]]))
        return z3.And(0 <= w, w < layers.n, layers.ats[0][w][k])
    spec.chain_has = chain_has
    spec.chain_first = chain_first

    def contains_hook(X, c, it, node):
        return None
    prev_contains = spec.contains_hook

    def chain_contains(X, cont, item, node):
        if isinstance(cont, Loc) and isinstance(cont.T, TChain):
            layers = deref(cont)
            return chain_has(X, layers, T._coerce(item, Str.sort))
        return None
    spec.chain_contains = chain_contains

    def chain_getitem(X, cont, key, node):
        if isinstance(cont, Loc) and isinstance(cont.T, TChain):
            layers = deref(cont)
            k = T._coerce(key, Str.sort)
            has = chain_has(X, layers, k)
            if not X.spec_mode and X.branch(z3.Not(has)):
                X.raise_('KeyError', node=node)
            w = chain_first(layers, k)
            return ZV(layers.ats[1][w][k])
        return None
    spec.chain_getitem = chain_getitem

    def chain_attr(X, obj, c, attr, node):
        if not (isinstance(obj, Loc) and isinstance(obj.T, TChain)):
            return None
        layers = deref(obj)

        def layer0_loc():
            def get():
                return deref(obj).at(z3.IntVal(0))

            def set_(nv):
                cur = deref(obj)
                lv = cur.E.to_leaves(nv)
                obj.set(ListV(cur.E, cur.n, [z3.Store(a, 0, l) for a, l in zip(cur.ats, lv)]))
            return Loc(get, set_, TDict(Str, Handle), obj.desc + '.maps[0]')
        if attr == 'maps':
            return Loc(obj.get, obj.set, TList(TDict(Str, Handle)), obj.desc + '.maps')
        if attr == 'pop':
            return Builtin('ChainMap.pop', lambda X, a, k, n: prelude.dict_pop(X, layer0_loc(), a, k, n))
        if attr == 'clear':
            return Builtin('ChainMap.clear', lambda X, a, k, n: prelude.dict_clear(X, layer0_loc(), a, k, n))
        if attr == 'get':
            def get(X, a, k, n):
                key = T._coerce(a[0], Str.sort)
                has = chain_has(X, layers, key)
                w = chain_first(layers, key)
                from pyvc.sym import ite
                return ite(has, ZV(layers.ats[1][w][key]), a[1] if len(a) > 1 else NONE)
            return Builtin('ChainMap.get', get)
        if attr in ('values', 'keys', 'items'):
            return Builtin('ChainMap.' + attr, lambda X, a, k, n: ChainView(obj, attr))
        X.unsupported('ChainMap.%s' % attr, node)
    spec.container_attr_hook = lambda X, obj, c, attr, node: chain_attr(X, obj, c, attr, node)

    spec.define('chain_has', lambda X, ch, k: ZV(chain_has(X, deref(ch), T._coerce(k, Str.sort))))
    spec.define('chain_get', lambda X, ch, k: ZV(deref(ch).ats[1][chain_first(deref(ch), T._coerce(k, Str.sort))]
                                                 [T._coerce(k, Str.sort)]))
    spec.define('layer_has', lambda X, ch, j, k: ZV(deref(ch).ats[0][deref(j).t if isinstance(deref(j), ZV)
                                                    else z3.IntVal(deref(j).v)][T._coerce(k, Str.sort)]))
    spec.define('layer_get', lambda X, ch, j, k: ZV(deref(ch).ats[1][deref(j).t if isinstance(deref(j), ZV)
                                                    else z3.IntVal(deref(j).v)][T._coerce(k, Str.sort)]))


class ChainView(ZV):
    def __init__(self, chain, kind):
        self.chain, self.kind = chain, kind
        self.t = z3.IntVal(0)


def register(spec):
    declare(spec)
    C = spec.contract
    # ------------------------------------------------------------------ Handle
    q = M + 'Handle.'
    C(q + '__call__', params=dict(self=Handle), props=['C12'], returns=Res,
      modifies=['self._cache', 'self._cached', 'ghost:log', 'ghost:cnt'],
      ensures={
          'cached-returns-the-same-object-without-loading': (
              'implies(old(self._cached), result == old(self._cache) and '
              'self._cache == old(self._cache) and self._cached and '
              'all(cnt(c) == old(cnt(c)) for c in Call))'),
          'loads-exactly-once-otherwise': (
              'implies(not old(self._cached), cnt(call_load(self)) == old(cnt(call_load(self))) + 1 and '
              'all(implies(c != call_load(self), cnt(c) == old(cnt(c))) for c in Call) and '
              'self._cached and self._cache == result)'),
          'links-untouched': 'self.parent == old(self.parent) and self.key == old(self.key)',
      },
      raises={'$OtherException': {
          'only-from-load': 'not old(self._cached)',
          'still-not-cached': 'not self._cached and self._cache == old(self._cache)'}})
    C(q + 'clear', params=dict(self=Handle), props=['C12'],
      modifies=['self._cache', 'self._cached'],
      ensures={'next-access-loads': 'not self._cached'})
    C(q + 'cached', params=dict(self=Handle), props=['C12'], returns=TBool,
      ensures={'tells-whether-next-access-loads': 'result == self._cached'})


# ============================================================ ResourceMap (C11)

# a child records the map containing it and the name it is stored under
NODE_OK = {
    'N1': ("all(implies(k in self.maps, self.maps[k] != None and self.maps[k].parent == self and "
           "self.maps[k].key == k) for k in Str)", 'prop'),
    'N2': ("all(implies(0 <= j and j < len(self.handles.maps) and layer_has(self.handles, j, k), "
           "layer_get(self.handles, j, k) != None and layer_get(self.handles, j, k).parent == self "
           "and layer_get(self.handles, j, k).key == k) for j in Int for k in Str)", 'prop'),
    # under one map a name denotes either a handle (in any layer) or a sub-map
    'N3': ("all(implies(k in self.maps, all(not (0 <= j and j < len(self.handles.maps) and "
           "layer_has(self.handles, j, k)) for j in Int)) for k in Str)", 'prop'),
    'N4': ("len(self.handles.maps) >= 1", 'aux'),
    # what the tree stores exists (is allocated): a map created later is none of them
    'N5': ("all(implies(k in self.maps, allocated(self.maps[k])) for k in Str) and "
           "all(implies(0 <= j and j < len(self.handles.maps) and layer_has(self.handles, j, k), "
           "allocated(layer_get(self.handles, j, k))) for j in Int for k in Str)", 'aux'),
}


def register_map(spec):
    C = spec.contract
    Mk = spec.sort_classes['Map']
    for name, (text, role) in NODE_OK.items():
        Mk.invariant(name, text, role)

    def chain_setitem(X, cont, key, v, node):
        if isinstance(cont, Loc) and isinstance(cont.T, TChain):
            cur = deref(cont)
            k = T._coerce(key, Str.sort)
            l0 = cur.at(z3.IntVal(0)).store(k, v)
            lv = cur.E.to_leaves(l0)
            cont.set(ListV(cur.E, cur.n, [z3.Store(a, 0, l) for a, l in zip(cur.ats, lv)]))
            return True
        return False
    spec.chain_setitem = chain_setitem

    q = M + 'ResourceMap.'
    P = dict(self=Map)
    ALLOK = "all(implies(mm != None, wf(mm)) for mm in Map)"
    HAV = ['Map.maps', 'Map.handles', 'Map.parent', 'Map.key', 'ghost:alloc_Map']
    spec.ghost_decls['alloc_Map'] = spec.alloc_havoc('Map')

    C(q + '__init__', params=P, props=['C11'], modifies=['self.maps', 'self.handles'],
      ensures={'empty': 'all(not (k in self.maps) for k in Str) and len(self.handles.maps) == 1 and '
                        'all(not layer_has(self.handles, 0, k) for k in Str)'})

    for variant, VT in (('map', Map), ('handle', Handle)):
        linked = ('value.parent == T and value.key == last and T != None and last == parts(key)[len(parts(key)) - 1]')
        stored = ('last in T.maps and T.maps[last] == value' if variant == 'map' else
                  'layer_has(T.handles, 0, last) and layer_get(T.handles, 0, last) == value and '
                  'chain_has(T.handles, last) and chain_get(T.handles, last) == value')
        other_kind = ('all(not (0 <= j and j < len(T.handles.maps) and layer_has(T.handles, j, last)) '
                      'for j in Int)' if variant == 'map' else 'not (last in T.maps)')
        # C12: storing (or replacing) a node never touches the cache of any handle (frame)
        C(q + '__setitem__#' + variant, params=dict(P, key=Str, value=VT), props=['C11', 'C12'],
          requires=[ALLOK, 'key != None', 'value != None and value.parent == None and allocated(value)'] +
                   (['value != self'] if variant == 'map' else
                    ['all(not (0 <= j and j < len(mm.handles.maps) and layer_has(mm.handles, j, k) and '
                     'layer_get(mm.handles, j, k) == value) for mm in Map for j in Int for k in Str)']),
          modifies=HAV + (['value.parent', 'value.key'] if variant == 'handle' else []),
          ghost_results={'T': ('local', 'target_map', Map), 'last': ('local', 'last_key', Str)},
          ensures={
              'every-node-records-its-container': (ALLOK, 'prop'),
              'backlinks': linked,
              'stored-under-the-last-component': stored,
              'latest-assignment-wins': other_kind,
          })
    inv_outer = {
        'every-node-ok': ALLOK,
        'target': 'target_map != None',
        'value-still-unattached': 'value != None and value.parent == None and allocated(value)',
        'last': 'last_key == parts(key)[len(parts(key)) - 1]',
        'target-exists': 'allocated(target_map)',
    }
    inv_outer_h = dict(inv_outer)
    inv_outer_h['value-nowhere'] = (
        'all(not (0 <= j and j < len(mm.handles.maps) and layer_has(mm.handles, j, k) and '
        'layer_get(mm.handles, j, k) == value) for mm in Map for j in Int for k in Str)')
    spec.loop(q + '__setitem__', 0, index='i', seq='ks', invariants=inv_outer_h, havoc=HAV,
              vars={'target_map': Map, 'subkey': Str, 'submap': Map})

    def inner(which_key):
        return {
            'others-ok': 'all(implies(mm != None and mm != target_map, wf(mm)) for mm in Map)',
            'target-links': "wf(target_map, 'N1,N2,N4,N5')",
            'target-exclusive-so-far': (
                'all(implies(k in target_map.maps and k != %s, all(not (0 <= j and '
                'j < len(target_map.handles.maps) and layer_has(target_map.handles, j, k)) for j in Int)) '
                'for k in Str)' % which_key),
            'popped-so-far': 'all(implies(0 <= j and j < i, not layer_has(target_map.handles, j, %s)) '
                             'for j in Int)' % which_key,
            'target': 'target_map != None and allocated(target_map)',
            'value-still-unattached': 'value != None and value.parent == None and allocated(value)',
            'last': 'last_key == parts(key)[len(parts(key)) - 1]',
            'value-nowhere': inv_outer_h['value-nowhere'],
        }
    spec.loop(q + '__setitem__', 1, index='i', seq='layers', invariants=inner('subkey'),
              havoc=['Map.handles'])
    spec.loop(q + '__setitem__', 2, index='i', seq='layers', invariants=inner('last_key'),
              havoc=['Map.handles'])

    # ---- clear: nothing reachable, former direct children detached
    C(q + 'clear', params=P, props=['C11', 'C12'], requires=[ALLOK, 'self.parent != self'],
      modifies=['Map.parent', 'Map.key', 'Handle.parent', 'Handle.key', 'self.maps', 'self.handles'],
      ensures={
          'every-node-records-its-container': (ALLOK, 'prop'),
          'nothing-reachable': 'all(not (k in self.maps) for k in Str) and '
                               'all(not (0 <= j and j < len(self.handles.maps) and '
                               'layer_has(self.handles, j, k)) for j in Int for k in Str)',
          'children-detached': (
              'all(implies(k in old(self.maps), old(self.maps)[k].parent == None and '
              'old(self.maps)[k].key == None) for k in Str) and '
              'all(implies(0 <= j and j < len(old(self.handles.maps)) and layer_has(old(self.handles), j, k), '
              'layer_get(old(self.handles), j, k).parent == None) for j in Int for k in Str)'),
          'own-links-untouched': 'self.parent == old(self.parent) and self.key == old(self.key)',
      })
    HK = ['Handle.parent', 'Handle.key']
    # layers before i: every handle in them that pointed to self is detached
    detached = ('all(implies(0 <= j and j < %s and layer_has(self.handles, j, k), '
                'layer_get(self.handles, j, k).parent != self) for j in Int for k in Str)')
    others = ('all(implies(hh != None and old(hh.parent) != self, hh.parent == old(hh.parent) and '
              'hh.key == old(hh.key)) for hh in Handle) and '
              'all(implies(hh != None and old(hh.parent) == self, hh.parent == self or hh.parent == None) '
              'for hh in Handle)')
    same = ('self.maps == old(self.maps) and self.handles == old(self.handles) and '
            'all(mm.parent == old(mm.parent) and mm.key == old(mm.key) and mm.maps == old(mm.maps) '
            'and mm.handles == old(mm.handles) for mm in Map)')
    spec.loop(q + 'clear', 0, index='i', seq='layers', invariants={
        'layers-done': detached % 'i', 'other-handles-untouched': others, 'maps-untouched': same,
    }, havoc=HK)
    spec.loop(q + 'clear', 1, index='i2', seq='hs', invariants={
        'layers-done': detached % 'i',
        'this-layer-so-far': ('all(implies(layer_has(self.handles, i, k) and pos(k) < i2, '
                              'layer_get(self.handles, i, k).parent != self) for k in Str)'),
        'other-handles-untouched': others, 'maps-untouched': same,
    }, havoc=HK)
    spec.loop(q + 'clear', 2, index='i', seq='ms', invariants={
        'all-handles-detached': detached % 'len(self.handles.maps)',
        'other-handles-untouched': others,
        'containers-untouched': 'self.maps == old(self.maps) and self.handles == old(self.handles)',
        'children-so-far': ('all(implies(k in self.maps and pos(k) < i, self.maps[k].parent == None and '
                            'self.maps[k].key == None) for k in Str)'),
        'children-to-do': ('all(implies(k in self.maps and pos(k) >= i, self.maps[k].parent == self and '
                           'self.maps[k].key == k) for k in Str)'),
        'self-is-not-its-own-child': 'self.parent != self and all(implies(k in self.maps, '
                                     'self.maps[k] != self) for k in Str)',
        'other-maps-untouched': ('all(implies(mm != None and old(mm.parent) != self, '
                                 'mm.parent == old(mm.parent) and mm.key == old(mm.key)) for mm in Map) and '
                                 'all(mm.maps == old(mm.maps) and mm.handles == old(mm.handles) for mm in Map)'),
    }, havoc=['Map.parent', 'Map.key'])


_reg_tree0 = register


def register(spec):     # noqa: F811
    _reg_tree0(spec)
    register_map(spec)


def register_lookup(spec):
    """get / __getitem__: the same walk over the path components, the same last step
    (a handle in any layer, else a sub-map).  `walk(m, key, i)` is the map reached
    after i components: a ghost function DEFINED by the requires clause (the heap is
    not modified by the walk, so the definition is conservative)."""
    C = spec.contract
    q = M + 'ResourceMap.'
    WALK = z3.Function('walkf', Map.sort, Str.sort, z3.IntSort(), Map.sort)
    spec.define('walk', lambda X, m, k, i: ZV(WALK(deref(m).t, deref(k).t, T._coerce(i, z3.IntSort()))))
    n = 'len(parts(key))'
    walk_def = ('walk(self, key, 0) == self and all(implies(0 <= i and i < %s - 1 and '
                'walk(self, key, i) != None and parts(key)[i] in walk(self, key, i).maps, '
                'walk(self, key, i + 1) == walk(self, key, i).maps[parts(key)[i]]) for i in Int)' % n)
    reach = ('all(implies(0 <= i and i < %s - 1, walk(self, key, i) != None and '
             'parts(key)[i] in walk(self, key, i).maps) for i in Int)' % n)
    Cn = 'walk(self, key, %s - 1)' % n
    last = 'parts(key)[%s - 1]' % n
    is_h = 'chain_has(%s.handles, %s)' % (Cn, last)
    is_m = '(%s in %s.maps)' % (last, Cn)
    found = '(%s and %s != None and (%s or %s))' % (reach, Cn, is_h, is_m)
    ALLOK = "all(implies(mm != None, wf(mm)) for mm in Map)"
    req = [ALLOK, 'key != None', walk_def]
    inv = {
        'walked': 'value == walk(self, key, i) and value != None',
        'present-so-far': 'all(implies(0 <= j and j < i, walk(self, key, j) != None and '
                          'parts(key)[j] in walk(self, key, j).maps) for j in Int)',
        'last': 'last_key == ' + last,
        'keys': 'len(keys) == %s and all(implies(0 <= j and j < len(keys), keys[j] == parts(key)[j]) '
                'for j in Int)' % n,
    }
    C(q + 'get', params=dict(self=Map, key=Str, default=TSort('Obj')), props=['C11'], requires=req,
      ensures={
          'handle-if-present-in-any-layer': 'implies(%s and %s, result == chain_get(%s.handles, %s))'
                                            % (found, is_h, Cn, last),
          'else-the-sub-map': 'implies(%s and not %s, result == %s.maps[%s])' % (found, is_h, Cn, last),
          'default-iff-nothing-there': 'implies(not %s, result == default)' % found,
      })
    spec.loop(q + 'get', 0, index='i', seq='ks', invariants=inv, vars={'value': Map, 'subkey': Str})
    C(q + '__getitem__', params=dict(self=Map, key=Str), props=['C11', 'C12'], requires=req,
      modifies=['Handle._cache', 'Handle._cached', 'ghost:log', 'ghost:cnt'],
      ghost_results={'h': ('expr', 'chain_get(%s.handles, %s)' % (Cn, last), Handle)},
      ensures={
          'found': found,
          'the-handles-resource': (
              'implies(%s, h != None and h._cached and result == h._cache and '
              'implies(old(h._cached), result == old(h._cache) and '
              'all(cnt(c) == old(cnt(c)) for c in Call)) and '
              'implies(not old(h._cached), cnt(call_load(h)) == old(cnt(call_load(h))) + 1))'
              % is_h),
          'else-the-sub-map': 'implies(not %s, result == %s.maps[%s])' % (is_h, Cn, last),
      },
      raises={'KeyError': {'exactly-when-get-returns-its-default': 'not %s' % found},
              '$OtherException': {'from-load-only': is_h}})
    spec.loop(q + '__getitem__', 0, index='i', seq='ks', invariants=inv,
              vars={'value': Map, 'subkey': Str})
    spec.klass(None, 'Obj')
    spec.sort_name('Obj')


_reg_tree1 = register


def register(spec):     # noqa: F811
    _reg_tree1(spec)
    register_lookup(spec)


def register_static(spec):
    """C17.  Deductive: the snapshot is immutable, and its three access methods
    (__getattribute__, __getitem__, get) read the snapshot's attribute table the way the
    statement says - a handle name yields the handle's loaded resource (through the contract of
    Handle.__call__, so at most one load and the identical object), any other name the
    sub-snapshot, get the stored object itself without loading, an absent name AttributeError.
    That get_static_map() FILLS the attribute table as a mirror of the map (it builds a class
    with __slots__ per map, recursively) is outside the verifier's subset and is checked by the
    bounded native stand-in only (DESIGN 9); the link between the two is the representation
    invariant snap_ok, assumed of every snapshot (listed as an assumption)."""
    SMap = TSort('SMap')
    # the attribute table of a snapshot (slots and __dict__ together): handles and sub-snapshots
    spec.klass(M + 'StaticResourceMap', 'SMap',
               fields={'_handle_names': TSet(Str), '_hattrs': TDict(Str, Handle),
                       '_mattrs': TDict(Str, SMap)})
    spec.sort_name('SMap')
    C = spec.contract
    q = M + 'StaticResourceMap.'
    for fn, params in (('__setattr__', dict(self=SMap, name=Str, value=TSort('Obj'))),
                       ('__delattr__', dict(self=SMap, name=Str))):
        C(q + fn, params=params, props=['C17'],
          ensures={'never-returns-normally': 'False'},
          raises={'ValueError': {'always-rejected': 'True',
                                 'changes-nothing': 'unchanged_except(self, "")'}})

    # object.__getattribute__(snapshot, name): a read of the attribute table
    def raw_getattribute(X, cv):
        def fn(X, args, kw, node):
            obj, name = deref(args[0]), deref(args[1])
            if not (isinstance(obj, ZV) and obj.t.sort().name() == 'SMap'):
                X.unsupported('object.__getattribute__ on %r' % (obj,), node)
            X.null_check(obj, node)
            if isinstance(name, Con) and name.v == '_handle_names':
                return X.read_field(obj.t, '_handle_names')
            nt = T._coerce(name, Str.sort)
            ha = deref(X.read_field(obj.t, '_hattrs'))
            ma = deref(X.read_field(obj.t, '_mattrs'))
            if X.branch(ha.dom[nt]):
                return ha.select(nt)
            if X.branch(ma.dom[nt]):
                return ma.select(nt)
            X.raise_('AttributeError', name, node=node)
        return Builtin('object.__getattribute__', fn)
    spec.class_attr_load[('object', '__getattribute__')] = raw_getattribute
    spec.define('snap_names_ok', lambda X, s_: ZV(
        deref(X.read_field(deref(s_).t, '_handle_names')).arr ==
        deref(X.read_field(deref(s_).t, '_hattrs')).dom))
    spec.note_assumption('C17: every snapshot satisfies snap_ok (its _handle_names are exactly the names bound '
                         'to handles, a name is bound to a handle or to a sub-snapshot, never both, and bound '
                         'objects are not None) - established by get_static_map, which is checked by the bounded '
                         'native oracle only; names that collide with members of StaticResourceMap '
                         '(_handle_names, get, ...) are excluded, as in the statement')
    SNAP_OK = ['self != None', 'snap_names_ok(self)',
               'all(not (k in self._hattrs and k in self._mattrs) for k in Str)',
               'all(implies(k in self._hattrs, self._hattrs[k] != None) for k in Str)',
               'all(implies(k in self._mattrs, self._mattrs[k] != None) for k in Str)']
    def loaded(pn):
        return ('let(h=self._hattrs[%s], body=h != None and h._cached and result == h._cache and '
                'implies(old(h._cached), result == old(h._cache) and all(cnt(c) == old(cnt(c)) for c in Call)) '
                'and implies(not old(h._cached), cnt(call_load(h)) == old(cnt(call_load(h))) + 1 and '
                'all(implies(c != call_load(h), cnt(c) == old(cnt(c))) for c in Call)))' % pn)
    QUIET = ('all(cnt(c) == old(cnt(c)) for c in Call) and '
             'all(hh._cache == old(hh._cache) and hh._cached == old(hh._cached) for hh in Handle)')
    for fn, pn in (('__getattribute__', 'name'), ('__getitem__', 'key')):
        C(q + fn + '#handle', params={'self': SMap, pn: Str}, props=['C17'], returns=Res,
          requires=SNAP_OK + ['%s != None and %s in self._handle_names' % (pn, pn)],
          modifies=['Handle._cache', 'Handle._cached', 'ghost:log', 'ghost:cnt'],
          ensures={'a-handle-name-yields-the-loaded-resource': loaded(pn),
                   'other-handles-untouched': 'all(implies(hh != self._hattrs[%s], hh._cache == old(hh._cache) '
                                              'and hh._cached == old(hh._cached)) for hh in Handle)' % pn},
          raises={'$OtherException': {'from-load-only': 'not old(self._hattrs[%s]._cached)' % pn}})
        C(q + fn + '#map', params={'self': SMap, pn: Str}, props=['C17'], returns=SMap,
          requires=SNAP_OK + ['%s != None and not (%s in self._handle_names)' % (pn, pn)],
          ensures={'any-other-name-yields-the-sub-snapshot': '%s in self._mattrs and result == self._mattrs[%s]'
                                                             % (pn, pn),
                   'loads-nothing': QUIET},
          raises={'AttributeError': {'exactly-for-absent-names': 'not (%s in self._mattrs)' % pn,
                                     'loads-nothing': QUIET}})
    C(q + 'get#handle', params=dict(self=SMap, key=Str), props=['C17'], returns=Handle,
      requires=SNAP_OK + ['key != None and key in self._handle_names'],
      ensures={'the-handle-object-itself': 'result == self._hattrs[key]', 'loads-nothing': QUIET})
    C(q + 'get#map', params=dict(self=SMap, key=Str), props=['C17'], returns=SMap,
      requires=SNAP_OK + ['key != None and not (key in self._handle_names)'],
      ensures={'the-sub-snapshot': 'key in self._mattrs and result == self._mattrs[key]',
               'loads-nothing': QUIET},
      raises={'AttributeError': {'exactly-for-absent-names': 'not (key in self._mattrs)',
                                 'loads-nothing': QUIET}})

    # getattr(snapshot, key) in __getitem__ runs the class's __getattribute__: by its contract
    prev_getattr = getattr(spec, 'getattr_hook', None)

    def getattr_hook(X, obj, name, default, node):
        if isinstance(obj, ZV) and obj.t.sort().name() == 'SMap' and default is None:
            from pyvc.exec import Closure
            m, fnode, qq = X.repo.find_method(M + 'StaticResourceMap', '__getattribute__')
            hn = deref(X.read_field(obj.t, '_handle_names'))
            nt = T._coerce(name, Str.sort)
            variant = '#handle' if X.branch(hn.arr[nt]) else '#map'
            ct = spec.contracts[q + '__getattribute__' + variant]
            return spec.call_by_contract(X, ct, Closure(fnode, None, m, cls=qq), [obj, name], {}, node)
        if prev_getattr is not None:
            return prev_getattr(X, obj, name, default, node)
        X.unsupported('getattr with symbolic name', node)
    spec.getattr_hook = getattr_hook


_reg_tree2 = register


def register(spec):     # noqa: F811
    _reg_tree2(spec)
    register_static(spec)
