"""Ghost clients for C18: algebraic laws stated over the real operators.

These functions are never imported by desper; the verifier executes them
symbolically, inlining the real `__matmul__`, `__invert__`, `__new__`.
`assume`, `det` are spec forms.
"""
from desper.math import Mat4, Mat3, Vec4


def matmul_associative(a, b, c):
    assert (a @ b) @ c == a @ (b @ c)


def matmul_identity(a):
    assert a @ Mat4() == a
    assert Mat4() @ a == a


def matmul_vector_compose(a, b, v):
    assert (a @ b) @ v == b @ (a @ v)


def mat3_associative(a, b, c):
    assert (a @ b) @ c == a @ (b @ c)


def mat3_identity(a):
    assert a @ Mat3() == a
    assert Mat3() @ a == a


def invert_two_sided(a):
    assume(det(a, 4) != 0)
    inv = ~a
    assert a @ inv == Mat4()
    assert inv @ a == Mat4()
