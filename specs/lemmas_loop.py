"""Ghost clients for C13: the world instance in which switch() queued on_switch_in
is the instance the loop enters.  `as_world`, `assume` are spec forms; calls into
desper.loop go through the contracts of switch(), Loop.switch, SimpleLoop.switch."""
from desper.loop import switch, SwitchWorld


def in_reaches_entered_instance(loop, h, frm):
    try:
        switch(h, False, False, frm)
    except SwitchWorld as ex:
        queued_in = as_world(h._cache)
        loop.switch(ex.world_handle, ex.clear_current, ex.clear_next)
        assert loop._current_world == queued_in


def in_reaches_entered_instance_clear_current(loop, h, frm):
    assume(loop._current_world_handle != h)
    try:
        switch(h, True, False, frm)
    except SwitchWorld as ex:
        queued_in = as_world(h._cache)
        loop.switch(ex.world_handle, ex.clear_current, ex.clear_next)
        assert loop._current_world == queued_in


def in_reaches_entered_instance_clear_next(loop, h, frm):
    try:
        switch(h, False, True, frm)
    except SwitchWorld as ex:
        queued_in = as_world(h._cache)
        loop.switch(ex.world_handle, ex.clear_current, ex.clear_next)
        assert loop._current_world == queued_in


def in_reaches_entered_instance_restart_current(loop, h, frm):
    assume(loop._current_world_handle == h)
    try:
        switch(h, True, False, frm)
    except SwitchWorld as ex:
        queued_in = as_world(h._cache)
        loop.switch(ex.world_handle, ex.clear_current, ex.clear_next)
        assert loop._current_world == queued_in
