"""C18 — contracts for desper/math.py.

Every postcondition is the textbook definition, written here independently of
the code (sums over indices, Leibniz determinant), over the real field.
"""
import ast
import itertools
import z3

from pyvc.sym import Con, ZV, TupV, deref
from pyvc import prelude

M = 'desper.math.'
PROP = 'C18'


def vec(cls, n, prefix=None):
    def mk(X, name):
        return TupV([ZV(z3.Real('%s_%d' % (name, i))) for i in range(n)], cls=M + cls)
    return mk


def plain_tuple(n):
    def mk(X, name):
        return TupV([ZV(z3.Real('%s_%d' % (name, i))) for i in range(n)])
    return mk


def real(X, name):
    return ZV(z3.Real(name))


def const(v):
    return lambda X, name: Con(v)


def klass_of(cls):
    from pyvc.exec import ClassV
    return lambda X, name: ClassV(M + cls)


DIM = {'Vec2': 2, 'Vec3': 3, 'Vec4': 4}
LETTERS = {'Vec2': 'xy', 'Vec3': 'xyz', 'Vec4': 'xyzw'}


def _t(v):
    v = deref(v)
    if isinstance(v, Con):
        return z3.RealVal(v.v) if not isinstance(v.v, float) else z3.RealVal(str(v.v))
    t = v.t
    return z3.ToReal(t) if t.sort() == z3.IntSort() else t


def register(spec):
    # ---- spec-level functions (textbook definitions)
    def sq(X, v):
        v = deref(v)
        return ZV(sum((_t(x) * _t(x) for x in v.items), z3.RealVal(0)))

    def dotp(X, a, b):
        a, b = deref(a), deref(b)
        return ZV(sum((_t(x) * _t(y) for x, y in zip(a.items, b.items)), z3.RealVal(0)))

    def parallel(X, a, b):
        a, b = deref(a), deref(b)
        n = len(a.items)
        cs = [_t(a.items[i]) * _t(b.items[j]) == _t(a.items[j]) * _t(b.items[i])
              for i in range(n) for j in range(i + 1, n)]
        return ZV(z3.And(*cs))

    def mm(X, a, b, n):
        """Row-by-column product of two n x n grids stored row-major."""
        a, b, n = deref(a), deref(b), deref(n).v
        return TupV([ZV(sum((_t(a.items[n * i + k]) * _t(b.items[n * k + j]) for k in range(n)),
                            z3.RealVal(0))) for i in range(n) for j in range(n)])

    def vm(X, v, a, n):
        """Row vector times matrix: (v A)[j] = sum_k v[k] A[k][j]."""
        a, v, n = deref(a), deref(v), deref(n).v
        return TupV([ZV(sum((_t(v.items[k]) * _t(a.items[n * k + j]) for k in range(n)),
                            z3.RealVal(0))) for j in range(n)])

    def ident(X, n):
        n = deref(n).v
        return TupV([Con(1 if i == j else 0) for i in range(n) for j in range(n)])

    def det(X, a, n):
        """Leibniz formula."""
        a, n = deref(a), deref(n).v
        total = z3.RealVal(0)
        for perm in itertools.permutations(range(n)):
            inv = sum(1 for i in range(n) for j in range(i + 1, n) if perm[i] > perm[j])
            term = z3.RealVal(-1 if inv % 2 else 1)
            for i in range(n):
                term = term * _t(a.items[n * i + perm[i]])
            total = total + term
        return ZV(total)

    def warned(X):
        return Con(any(e[0] == 'warn' for e in X.events))

    def same(X, a, b):
        """Entrywise equality of two sequences of numbers."""
        a, b = deref(a), deref(b)
        if len(a.items) != len(b.items):
            return Con(False)
        return ZV(z3.And(*[_t(x) == _t(y) for x, y in zip(a.items, b.items)]))

    for name, fn in dict(sq=sq, dotp=dotp, parallel=parallel, mm=mm, vm=vm, ident=ident,
                         det=det, warned=warned, same=same).items():
        spec.define(name, fn)
    from pyvc.exec import Builtin
    spec.spec_names['sqrt'] = Builtin('sqrt', prelude.m_sqrt)
    spec.spec_names['cos'] = Builtin('cos', prelude.m_cos)
    spec.spec_names['sin'] = Builtin('sin', prelude.m_sin)

    C = spec.contract

    # ---- clamp
    C(M + 'clamp', params=dict(num=real, min_val=real, max_val=real), props=[PROP], ensures={
        'textbook': 'implies(min_val <= max_val, result == (min_val if num < min_val else '
                    '(max_val if num > max_val else num)))',
        'never-below-min': 'result >= min_val',
    })

    for cls, n in DIM.items():
        V = vec(cls, n)
        q = M + cls + '.'
        isv = 'type(result) is %s and len(result) == %d' % (cls, n)
        for op, sym in (('__add__', '+'), ('__sub__', '-'), ('__mul__', '*')):
            C(q + op, params=dict(self=V, other=V), props=[PROP], ensures={
                'entrywise': 'all(result[i] == self[i] %s other[i] for i in range(%d))' % (sym, n),
                'type': isv})
        C(q + '__truediv__', params=dict(self=V, other=V), props=[PROP],
          requires=['all(other[i] != 0 for i in range(%d))' % n], ensures={
              'entrywise': 'all(result[i] * other[i] == self[i] for i in range(%d))' % n,
              'type': isv})
        C(q + '__truediv__#zero', params=dict(self=V, other=V), props=[PROP],
          requires=['any(other[i] == 0 for i in range(%d))' % n],
          ensures={'unreachable': 'False'},
          raises={'ZeroDivisionError': {'only-on-zero': 'any(other[i] == 0 for i in range(%d))' % n}})
        C(q + '__neg__', params=dict(self=V), props=[PROP], ensures={
            'entrywise': 'all(result[i] == -self[i] for i in range(%d))' % n, 'type': isv})
        C(q + '__abs__', params=dict(self=V), props=[PROP], ensures={
            'euclidean-norm': 'result >= 0 and result * result == sq(self)'})
        C(q + 'dot', params=dict(self=V, other=V), props=[PROP], ensures={
            'textbook': 'result == dotp(self, other)'}) if cls != 'Vec4' or True else None
        C(q + 'lerp', params=dict(self=V, other=V, alpha=real), props=[PROP], ensures={
            'textbook': 'all(result[i] == (1 - alpha) * self[i] + alpha * other[i] '
                        'for i in range(%d))' % n, 'type': isv})
        C(q + 'scale', params=dict(self=V, value=real), props=[PROP], ensures={
            'textbook': 'all(result[i] == value * self[i] for i in range(%d))' % n, 'type': isv})
        C(q + 'distance', params=dict(self=V, other=V), props=[PROP], ensures={
            'textbook': 'result >= 0 and result * result == '
                        'sum((other[i] - self[i]) * (other[i] - self[i]) for i in range(%d))' % n})
        C(q + 'clamp', params=dict(self=V, min_val=real, max_val=real), props=[PROP], ensures={
            'textbook': 'implies(min_val <= max_val, all(result[i] == (min_val if self[i] < min_val'
                        ' else (max_val if self[i] > max_val else self[i])) for i in range(%d)))' % n,
            'type': isv})
        C(q + 'normalize', params=dict(self=V), props=[PROP], ensures={
            'unit': 'implies(sq(self) != 0, sq(result) == 1)',
            'same-direction': 'implies(sq(self) != 0, parallel(result, self) and '
                              'dotp(result, self) > 0)',
            'zero-stays-zero': 'implies(sq(self) == 0, same(result, self))',
            'type': isv})
        if cls in ('Vec2', 'Vec3'):
            C(q + 'mag', params=dict(self=V), props=[PROP], ensures={
                'euclidean-norm': 'result >= 0 and result * result == sq(self)'})
            C(q + 'from_magnitude', params=dict(self=V, magnitude=real), props=[PROP], ensures={
                'magnitude': 'implies(sq(self) != 0, sq(result) == magnitude * magnitude)',
                'heading-kept': 'implies(sq(self) != 0, parallel(result, self) and '
                                'dotp(result, self) * magnitude >= 0)',
                'type': isv})
            C(q + 'limit', params=dict(self=V, max=real), props=[PROP], ensures={
                'never-longer': 'implies(max >= 0, sq(result) <= max * max)',
                'short-unchanged': 'implies(sq(self) <= max * max, same(result, self))',
                'same-direction': 'implies(max >= 0, parallel(result, self) and '
                                  'dotp(result, self) >= 0)',
            })
        # swizzles: every string of length 2..4 over the class's letters
        L = LETTERS[cls]
        for k in (2, 3, 4):
            for combo in itertools.product(L, repeat=k):
                s = ''.join(combo)
                idx = [L.index(c) for c in s]
                C(q + '__getattr__#' + s, params=dict(self=V, attrs=const(s)), props=[PROP],
                  ensures={'swizzle': 'type(result) is Vec%d and same(result, (%s,))' % (
                      k, ', '.join('self[%d]' % i for i in idx))})
        for bad in ('q', 'xq', L[0] * 5, '', L[0]):
            C(q + '__getattr__#bad_' + (bad or 'empty'), params=dict(self=V, attrs=const(bad)),
              props=[PROP], ensures={'unreachable': 'False'},
              raises={'AttributeError': {'rejected': 'True'}})

    V2, V3, V4 = vec('Vec2', 2), vec('Vec3', 3), vec('Vec4', 4)
    C(M + 'Vec3.cross', params=dict(self=V3, other=V3), props=[PROP], ensures={
        'textbook': 'result[0] == self[1]*other[2] - self[2]*other[1] and '
                    'result[1] == self[2]*other[0] - self[0]*other[2] and '
                    'result[2] == self[0]*other[1] - self[1]*other[0]',
        'orthogonal': 'dotp(result, self) == 0 and dotp(result, other) == 0',
        'type': 'type(result) is Vec3'})
    C(M + 'Vec2.heading', params=dict(self=V2), props=[PROP], ensures={
        'polar-angle': 'let(sqrt(sq(self)) * cos(result) == self[0] and '
                       'sqrt(sq(self)) * sin(result) == self[1])'})
    C(M + 'Vec2.from_polar', params=dict(mag=real, angle=real), props=[PROP], ensures={
        'textbook': 'result[0] == mag * cos(angle) and result[1] == mag * sin(angle)',
        'magnitude': 'sq(result) == mag * mag', 'type': 'type(result) is Vec2'})
    C(M + 'Vec2.from_heading', params=dict(self=V2, heading=real), props=[PROP], ensures={
        'magnitude-kept': 'sq(result) == sq(self)',
        'heading-set': 'result[0] * sin(heading) == result[1] * cos(heading) and '
                       'result[0] * cos(heading) + result[1] * sin(heading) >= 0',
        'type': 'type(result) is Vec2'})
    C(M + 'Vec2.rotate', params=dict(self=V2, angle=real), props=[PROP], ensures={
        'magnitude-kept': 'sq(result) == sq(self)',
        'rotation': 'result[0] == self[0] * cos(angle) - self[1] * sin(angle) and '
                    'result[1] == self[0] * sin(angle) + self[1] * cos(angle)',
        'type': 'type(result) is Vec2'})

    # ---- matrices
    for cls, n in (('Mat3', 3), ('Mat4', 4)):
        Mx = vec(cls, n * n)
        q = M + cls + '.'
        N = n * n
        ism = 'type(result) is %s and len(result) == %d' % (cls, N)
        C(q + '__add__', params=dict(self=Mx, other=Mx), props=[PROP], ensures={
            'entrywise': 'all(result[i] == self[i] + other[i] for i in range(%d))' % N, 'type': ism})
        C(q + '__sub__', params=dict(self=Mx, other=Mx), props=[PROP], ensures={
            'entrywise': 'all(result[i] == self[i] - other[i] for i in range(%d))' % N, 'type': ism})
        C(q + '__neg__', params=dict(self=Mx), props=[PROP], ensures={
            'entrywise': 'all(result[i] == -self[i] for i in range(%d))' % N, 'type': ism})
        C(q + '__matmul__', params=dict(self=Mx, other=Mx), props=[PROP], ensures={
            'row-by-column': 'same(result, mm(self, other, %d))' % n, 'type': ism})
        C(q + '__matmul__#vec', params=dict(self=Mx, other=vec('Vec%d' % n, n)), props=[PROP],
          ensures={'vector-times-matrix': 'same(result, vm(other, self, %d))' % n,
                   'type': 'type(result) is Vec%d' % n})
        C(q + '__new__#default', params=dict(cls=klass_of(cls), values=const(None)), props=[PROP],
          ensures={'identity': 'same(result, ident(%d))' % n, 'type': ism})
    M4 = vec('Mat4', 16)
    q = M + 'Mat4.'
    C(q + 'transpose', params=dict(self=M4), props=[PROP], ensures={
        'rows-become-columns': 'all(result[4 * i + j] == self[4 * j + i] '
                               'for i in range(4) for j in range(4))',
        'type': 'type(result) is Mat4'})
    C(q + '__invert__', params=dict(self=M4), props=[PROP], ensures={
        'right-inverse': 'implies(det(self, 4) != 0, same(mm(self, result, 4), ident(4)))',
        'left-inverse': 'implies(det(self, 4) != 0, same(mm(result, self, 4), ident(4)))',
        'singular-unchanged': 'implies(det(self, 4) == 0, same(result, self))',
        'singular-warns': 'implies(det(self, 4) == 0, warned())',
        'regular-silent': 'implies(det(self, 4) != 0, not warned())',
        'type': 'type(result) is Mat4'})
    C(q + 'from_translation', params=dict(cls=klass_of('Mat4'), vector=V3), props=[PROP], ensures={
        'translates-points': 'all(same(vm((x, y, z, 1), result, 4), '
                             '(x + vector[0], y + vector[1], z + vector[2], 1)) '
                             'for x in Real for y in Real for z in Real)',
        'type': 'type(result) is Mat4'})
    C(q + 'from_scale', params=dict(cls=klass_of('Mat4'), vector=V3), props=[PROP], ensures={
        'scales-points': 'all(same(vm((x, y, z, 1), result, 4), '
                         '(x * vector[0], y * vector[1], z * vector[2], 1)) '
                         'for x in Real for y in Real for z in Real)',
        'type': 'type(result) is Mat4'})
    C(q + 'translate', params=dict(self=M4, vector=V3), props=[PROP], ensures={
        'composes-translation': 'same(result, mm(self, (1, 0, 0, 0, 0, 1, 0, 0, 0, 0, 1, 0, '
                                'vector[0], vector[1], vector[2], 1), 4))',
        'type': 'type(result) is Mat4'})
    C(q + 'orthogonal_projection', params=dict(
        cls=klass_of('Mat4'), left=real, right=real, bottom=real, top=real, z_near=real,
        z_far=real), props=[PROP],
        requires=['right != left and top != bottom and z_far != z_near'], ensures={
            'near-corner': 'same(vm((left, bottom, -z_near, 1), result, 4), (-1, -1, -1, 1))',
            'far-corner': 'same(vm((right, top, -z_far, 1), result, 4), (1, 1, 1, 1))',
            'affine': 'result[3] == 0 and result[7] == 0 and result[11] == 0 and result[15] == 1',
            'type': 'type(result) is Mat4'})

    # ---- algebraic laws as ghost-client lemmas over the real code
    spec.lemma('specs/lemmas_math.py', 'matmul_associative', params=dict(a=M4, b=M4, c=M4), props=[PROP])
    spec.lemma('specs/lemmas_math.py', 'matmul_identity', params=dict(a=M4), props=[PROP])
    spec.lemma('specs/lemmas_math.py', 'matmul_vector_compose', params=dict(a=M4, b=M4, v=V4), props=[PROP])
    spec.lemma('specs/lemmas_math.py', 'mat3_associative', params=dict(
        a=vec('Mat3', 9), b=vec('Mat3', 9), c=vec('Mat3', 9)), props=[PROP])
    spec.lemma('specs/lemmas_math.py', 'mat3_identity', params=dict(a=vec('Mat3', 9)), props=[PROP])
    spec.lemma('specs/lemmas_math.py', 'invert_two_sided', params=dict(a=M4), props=[PROP])
