"""C19 — contracts for desper/logic/__init__.py: shorthands, references, prototypes.

Every shorthand is a single delegation: the obligation is that, on every path, the
wrapper performs exactly one call of the corresponding World method with
(controller.world, controller.entity, ...) and returns its result (so its effect
IS the callee's contract instance)."""
import z3

from pyvc import theory as T, prelude
from pyvc.sym import (Con, ZV, TupV, ListV, TScalar, TBool, TInt, TReal, TList, TSort, usort,
                      none_of, deref, NONE)
from pyvc.exec import OpenFn, BoundMethod, Builtin, ClassLevel, ExcV, PyRaise, ClassV
from . import events_spec as EV, world_spec as WS

G = 'desper.logic.'
Ctrl = TSort('Ctrl')
World, Ent, Comp, Proc, TypeS = WS.World, WS.Ent, WS.Comp, WS.Proc, WS.TypeS


def delegation(callee, binding, returns=True):
    """Path check: exactly one contract call, to `callee`, with the bound arguments."""
    def check(X, short):
        calls = [e for e in X.events if e[0] == 'call']
        ok = len(calls) == 1 and calls[0][1] == callee
        X.oblige(short + ':delegates-once-to-' + callee.split('.')[-1], z3.BoolVal(ok),
                 kind='delegation', role='prop', assume_after=False)
        if not ok:
            return
        cenv = calls[0][2]
        env = dict(X.entry_env)
        for pname, text in binding.items():
            want = X.spec.eval_spec(X, text, env)
            eqv = X.eq(cenv[pname], want)
            X.oblige('%s:delegates-%s' % (short, pname), X._z(eqv), kind='delegation', role='prop',
                     assume_after=False, info={'clause': '%s == %s' % (pname, text)})
    return check


def register(spec):
    WS.register(spec)
    spec.sort_name('Ctrl')
    Ck = spec.klass(G + 'Controller', 'Ctrl', fields=dict(world=World, entity=Ent))
    T.declare_class_of('Ctrl', G + 'Controller')
    spec.isinstance_hooks[('Ctrl', 'ControllerProtocol')] = lambda X, v: v.t != none_of(v.t.sort())
    C = spec.contract
    Wq = WS.W
    wfw = ['controller != None', 'controller.world != None', 'wf(controller.world)']
    base = {'self': 'controller.world', 'entity': 'controller.entity'}

    def shorthand(name, params, binding, extra_req=(), returns=None):
        c = C(G + name, params=dict(controller=Ctrl, **params), props=['C19'],
              requires=wfw + list(extra_req), open_effect=True, returns=returns,
              raises={'$OtherException': {'from-the-world-call': 'True'},
                      'AssertionError': {'from-the-world-call': 'True'},
                      'KeyError': {'from-the-world-call': 'True'}})
        c.path_checks = [delegation(Wq + name.replace('delete', 'delete_entity'), dict(base, **binding))]
        c.result_of_call = True
        return c
    shorthand('add_component', dict(component=Comp), {'component': 'component'},
              extra_req=['component != None', 'controller.entity != None', 'alive(component)',
                         'all(implies(e in controller.world._entities and t in controller.world._entities[e] '
                         'and controller.world._entities[e][t] == component, e == controller.entity) '
                         'for e in Ent for t in Type)'])
    for nm, ret in (('remove_component', Comp), ('has_component', TBool), ('get_component', Comp)):
        shorthand(nm, dict(component_type=TypeS), {'component_type': 'component_type'},
                  extra_req=['component_type != None'], returns=ret)
    shorthand('get_components', {}, {})
    shorthand('delete', {}, {})

    C(G + 'Controller.on_add', params=dict(self=Ctrl, entity=Ent, world=World), props=['C19'],
      modifies=['self.entity', 'self.world'],
      ensures={'knows-its-entity-and-world': 'self.entity == entity and self.world == world'})
    C(G + 'controller', params=dict(entity=Ent, world=World), props=['C19'], returns=Ctrl,
      modifies=['ghost:alloc_Ctrl', 'Ctrl.entity', 'Ctrl.world'],
      ensures={'built-for-that-entity': 'result != None and result.entity == entity and '
                                        'result.world == world',
               'a-new-controller': 'not old(allocated(result))',
               'others-untouched': 'all(implies(old(allocated(c)), c.entity == old(c.entity) and '
                                   'c.world == old(c.world)) for c in Ctrl)'})
    spec.define('allocated', lambda X, o: ZV(spec.alloc_array(X, deref(o).t.sort())[deref(o).t]))
    spec.ghost_decls['alloc_Ctrl'] = spec.alloc_havoc('Ctrl')

    # ---- references (descriptors)
    CR = TSort('CompRef')
    PR = TSort('ProcRef')
    spec.klass(G + 'ComponentReference', 'CompRef', fields=dict(component_type=TypeS))
    spec.klass(G + 'ProcessorReference', 'ProcRef', fields=dict(processor_type=TypeS))
    spec.inline.update({G + n for n in ('add_component', 'remove_component', 'get_component')})
    wfo = ['obj != None', 'obj.world != None', 'wf(obj.world)', 'self.component_type != None']
    ANY = {'$OtherException': {'from-the-world-call': 'True'}, 'AssertionError': {'bad-owner-or-value': 'True'},
           'KeyError': {'from-the-world-call': 'True'}}
    objb = {'self': 'obj.world', 'entity': 'obj.entity'}
    c = C(G + 'ComponentReference.__get__', params=dict(self=CR, obj=Ctrl, objtype=TypeS), props=['C19'],
          requires=wfo, open_effect=True, returns=Comp, raises=ANY)
    c.path_checks = [delegation(Wq + 'get_component', dict(objb, component_type='self.component_type'))]
    c = C(G + 'ComponentReference.__set__', params=dict(self=CR, obj=Ctrl, value=Comp), props=['C19'],
          requires=wfo + ['value != None', 'obj.entity != None', 'alive(value)',
                          'all(implies(e in obj.world._entities and t in obj.world._entities[e] and '
                          'obj.world._entities[e][t] == value, e == obj.entity) for e in Ent for t in Type)'],
          open_effect=True, raises=ANY)
    c.path_checks = [delegation(Wq + 'add_component', dict(objb, component='value'))]
    c = C(G + 'ComponentReference.__delete__', params=dict(self=CR, obj=Ctrl), props=['C19'],
          requires=wfo, open_effect=True, raises=ANY)
    c.path_checks = [delegation(Wq + 'remove_component', dict(objb, component_type='self.component_type'))]
    wfp = ['obj != None', 'obj.world != None', 'wf(obj.world)', 'self.processor_type != None']
    c = C(G + 'ProcessorReference.__get__', params=dict(self=PR, obj=Ctrl, objtype=TypeS), props=['C19'],
          requires=wfp, open_effect=True, returns=Proc, raises=ANY)
    c.path_checks = [delegation(Wq + 'get_processor', {'self': 'obj.world', 'processor_type': 'self.processor_type'})]
    c = C(G + 'ProcessorReference.__set__', params=dict(self=PR, obj=Ctrl, value=Proc), props=['C19'],
          requires=wfp + ['value != None', 'alive(value)'], open_effect=True, raises=ANY)
    c.path_checks = [delegation(Wq + 'add_processor', {'self': 'obj.world', 'processor': 'value',
                                                       'priority': 'None'})]
    c = C(G + 'ProcessorReference.__delete__', params=dict(self=PR, obj=Ctrl), props=['C19'],
          requires=wfp, open_effect=True, raises=ANY)
    c.path_checks = [delegation(Wq + 'remove_processor', {'self': 'obj.world',
                                                          'processor_type': 'self.processor_type'})]

    # ---- OnUpdateProcessor relays dt once to the on_update listeners of its world
    c = C(G + 'OnUpdateProcessor.process', params=dict(self=Proc, dt=TReal), props=['C19'],
          requires=['self.world != None', 'wf(self.world, "Disp")'], open_effect=True,
          modifies=['ghost:dlog', 'ghost:log', 'ghost:cnt'], rely=[],
          ensures={'relays-dt-once': ("len(dlog()) == len(old(dlog())) + 1 and "
                                      "dlog()[len(old(dlog()))] == qe('on_update', pack(dt), kw_empty())")},
          raises={'$OtherException': {'from-a-listener': 'True'}})
    c.path_checks = [delegation('desper.events.EventDispatcher.dispatch', {'self': 'self.world'})]
