"""Property table: which sidecar modules decide which property."""

T_GLOBAL = [
    'T1 pyvc: AST->VC translation and the prelude contracts of Python builtins (mitigated by native replay, mutants, CPython differential)',
    'T2 z3 4.x (z3-solver wheel); second opinions where they decide',
]

TABLE = {
    'C18': {
        'modules': ['math_spec'],
        'replay': 'math_replay',
        'level': 'proof',
        'opts': {'inline_all': True},
        'trusted_base': T_GLOBAL + [
            'T3 Python float treated as the real field (exact over the rationals for the polynomial operations)',
            'sqrt/cos/sin/atan2 as axiomatised real functions (axioms instantiated per occurrence)'],
        'assumptions': [
            'machine arithmetic treated as mathematical: float rounding of sqrt/cos/sin/atan2 and error accumulation are NOT covered (DESIGN 9)',
            'vector/matrix arguments are Vec*/Mat* instances of the documented length with real entries'],
        'explanation': 'Every listed method of desper/math.py is executed symbolically from its real AST (loop-free after literal-length unrolling, calls inlined), and each postcondition - the textbook definition written in specs/math_spec.py - is discharged by z3 as an identity over the reals; swizzles are enumerated exhaustively.',
    },
}

T_STATE = T_GLOBAL + [
    'T4 user objects: identity __hash__/__eq__ where containers hash or compare them (handlers behind weak references, generators in sets); == between components/processors in the analysed code is uninterpreted, as is the truthiness of components, processors, resources and handles; __events__ mappings not mutated while registered; instance attributes do not shadow callback names',
    'T5 open calls (callbacks) touch verified objects only through public operations (rely), at listed sites they do not re-enter',
]

TABLE['C03'] = {
    'modules': ['events_spec'], 'replay': 'events_replay', 'level': 'proof',
    'trusted_base': T_STATE + ['weak references modelled as a function of their identity-compared referent'],
    'assumptions': ['handlers have identity equality (T4); handlers with value equality are outside the model (D09)'],
    'explanation': 'EventDispatcher methods verified against the representation invariant wf_D (the two tables are inverse and list exactly the class-level event mappings) and a per-activation call log.',
}

TABLE['C04'] = {
    'modules': ['events_spec'], 'replay': 'events_replay', 'level': 'proof',
    'trusted_base': T_STATE,
    'assumptions': ['site assumption (C04 quantifier): callbacks run during a release may raise, disable dispatching, dispatch and (un)register handlers; they do not clear the dispatcher nor re-enable dispatching (two-state rely: queue append-only, no nested enable)'],
    'explanation': 'Normal and exceptional postconditions of dispatch and of the dispatch_enabled setter over the ghost invocation log dlog and the pending queue; loop invariant with ghost counter k and a decreases clause (termination).',
}
TABLE['C10'] = {
    'modules': ['events_spec'], 'replay': 'events_replay', 'level': 'proof',
    'trusted_base': T_STATE + ['T7 CPython finalises an object and runs its weak-reference callbacks when its last strong reference disappears (ghost `alive`, shrinking across open calls; registered => alive is part of wf_D)'],
    'assumptions': ['ownership: the dispatcher fields are declared with sorts that admit weak references, class-level functions, strings and argument packs only; a store of any other field is a failed frame obligation'],
    'explanation': 'receiver-not-None obligation at every callback site, wf_D clause E3 (every stored reference is alive), _remove_weak_handler removes the reference from both tables.',
}

TABLE['C01'] = {
    'modules': ['world_spec'], 'replay': 'world_replay', 'level': 'proof',
    'trusted_base': T_STATE + ['class hierarchy theory: desc reflexive/transitive, __subclasses__() lists direct subclasses, every proper descendant is below a direct subclass'],
    'assumptions': ['lifecycle callbacks (on_add/on_remove) may observe the world but do not modify it (C01 quantifies over sequences of World operations, not re-entrant ones)'],
    'explanation': 'World methods verified against wf_W (index = transpose of table, no empty rows, exact-type storage) and the abstract view att.',
}

_WORLD_ASSUME = [
    'lifecycle callbacks (on_add/on_remove) may observe the world (its invariants are proved at every callback site) but do not modify it',
    'a component instance is attached to at most one entity at a time (invariant U1, required of add_component/create_entity arguments)',
]
for _p, _txt in (
        ('C02', 'Lifecycle clauses on the ghost call counter and the pending queue, per attach/detach operation; R1 (attached handler => registered), R2/R3 (the world listens to itself for the relay event).'),
        ('C05', 'Two-step deletion: delete_entity only marks; _clear_dead_entities applies every mark (loop invariants), no implicit exception except for identifiers that never existed, marks consumed before they are applied; process applies deletions before any processor.'),
        ('C06', 'Class-hierarchy theory + walk invariants with a ghost witness: every match below the fringe; exact type first; at most one removal.'),
        ('C07', 'bisect/insort loop invariants, wf_P (one processor per exact type, sorted by priority), process calls each processor once in list order (ghost processor log).')):
    TABLE[_p] = {
        'modules': ['world_spec'], 'replay': 'world_replay', 'level': 'proof',
        'trusted_base': T_STATE + ['class hierarchy theory: desc reflexive, one-step transitive, __subclasses__() lists direct subclasses, every proper descendant is below a direct subclass'],
        'assumptions': list(_WORLD_ASSUME),
        'explanation': _txt,
    }
TABLE['C01']['assumptions'] = list(_WORLD_ASSUME)
TABLE['C07']['assumptions'] = list(_WORLD_ASSUME) + ['site World.process: a processor does not add or remove processors of the world being processed (C07 quantifies over sequences of calls)']

TABLE['C07']['modules'] = ['bisect_spec', 'world_spec']

TABLE['C20'] = {
    'modules': ['spatial_spec'], 'replay': 'spatial_replay', 'level': 'proof',
    'trusted_base': T_STATE + ['T3 float treated as the real field; x % 360. = x - 360*floor(x/360)'],
    'assumptions': ['machine arithmetic treated as mathematical (rotation modulo 360 over the reals)'],
    'explanation': 'Each of the six setters is verified: the stored value, and the single dispatch invocation it performs (ghost invocation log) carrying the value the getter returns afterwards; both constructors store fresh vectors.',
}

TABLE['C12'] = {
    'modules': ['tree_spec'], 'replay': 'tree_replay', 'level': 'proof',
    'trusted_base': T_STATE,
    'assumptions': ['Handle.load does not call its own handle'],
    'explanation': 'Two-state contract of Handle.__call__/clear/cached over the ghost call counter (load called at most once while cached, result identical to the cache, no clause depends on the truth value of the resource or of the handle); ResourceMap.__setitem__ and clear leave every cache alone (frame); every access path (ResourceMap.__getitem__, StaticResourceMap, Loop.switch) is verified against that contract only.',
}

TABLE['C11'] = {
    'modules': ['tree_spec'], 'replay': 'tree_replay', 'level': 'proof',
    'trusted_base': T_STATE + ['collections.ChainMap modelled as the list of its layers (lookup: first layer holding the key; writes/pop/clear: layer 0)', 'str.split(sep): a non-empty list of components'],
    'assumptions': ['an inserted value is not already part of a tree (value.parent is None)'],
    'explanation': 'Tree invariant node_ok for EVERY map object (children record container and name; a name is a handle in some layer or a sub-map, never both), preserved by __setitem__ (three nested loop invariants) and clear; get/__getitem__ agreement by a ghost-client lemma.',
}

TABLE['C17'] = {
    'modules': ['tree_spec'], 'replay': 'tree_replay', 'level': 'other',
    'bounded_hook': 'pyvc.bounded_native',
    'bound': 'all histories of up to 3 operations (4 in the thorough tier) over 21 operations: assignments of two counting handles and a pre-populated map under the keys a, a/b, b-1 (not an identifier), __p (private name), a falsy handle under a, pushing a handle layer on the root or on a, the same handle stored under a second name, a snapshot taken in the middle of the history, clear() of the root and of the sub-map a; each followed by a full comparison of get_static_map() with the map (item, attribute and get access at every node, no name in the snapshot that the map lacks, setattr/delattr on every node)',
    'trusted_base': T_STATE,
    'assumptions': ['names that collide with members of StaticResourceMap are excluded (as in the statement)',
                    'snap_ok: the attribute table of every snapshot is as get_static_map builds it (assumed by the access-method contracts; get_static_map itself is checked by the bounded oracle only)'],
    'explanation': 'Discharged deductively: immutability (__setattr__/__delattr__ raise unconditionally and change nothing) and the three access methods (__getattribute__, __getitem__, get; a handle-name and an other-name variant each) against the ghost attribute table of the snapshot. The mirror clause proper (get_static_map builds a class with __slots__ per map, recursively, and fills the table) is outside the verifier subset and is checked by the BOUNDED native stand-in only: not proved.',
}

TABLE['C14'] = {
    'modules': ['loop_spec'], 'replay': 'loop_replay', 'level': 'proof',
    'trusted_base': T_STATE + ['T3 time readings are exact reals'],
    'assumptions': ['time_function readings are exact reals (T3)', 'processors and callbacks do not write the fields of the loop (switching is requested by exception only)'],
    'explanation': 'Loop invariant of SimpleLoop.loop over the ghost reading sequence tlog and the ghost (world, dt) sequence wplog; exceptional postconditions of loop / Loop.start / SimpleLoop.start for Quit and for every other exception.',
}

TABLE['C13'] = {
    'modules': ['loop_spec'], 'replay': 'loop_replay', 'level': 'proof',
    'trusted_base': T_STATE,
    'assumptions': ['a world handle loads World instances', 'callbacks released when the entered world is enabled do not touch the loop'],
    'explanation': 'Contracts of Loop.switch / SimpleLoop.switch over the Handle contract and the ghost load counter: the loop enters exactly the instance the handle holds, a cached uncleared target is not reloaded, a cleared one is loaded exactly once.',
}

TABLE['C19'] = {
    'modules': ['logic_spec'], 'replay': 'logic_replay', 'level': 'other',
    'bounded_hook': 'pyvc.bounded_native',
    'bound': 'Prototype.__iter__: every combination, for three listed types, of (entry in init_methods) x (method init_prefix+name defined), with the default and a custom prefix, a method carrying the other prefix always present, the prototype class and a subclass of it, two iterations each (2 x 4^3 x 2 recipes); twin worlds: all sequences of 3 operations out of 15 shorthand / reference operations compared with the World call on a twin world',
    'trusted_base': T_STATE,
    'assumptions': ['owners of references implement ControllerProtocol (world, entity attributes)'],
    'explanation': 'Delegation obligations (discharged deductively): every shorthand / descriptor method performs, on every path, exactly one call of the corresponding World method with (controller.world, controller.entity, ...) as arguments, hence has that contract instance as its effect; Controller.on_add, controller(), OnUpdateProcessor.process likewise. Prototype.__iter__ (a lazy generator expression with dynamic getattr on an f-string name) is outside the verifier subset: its three-way choice is checked by the BOUNDED native stand-in only, not proved.',
}

TABLE['C09'] = {
    'modules': ['coroutines_spec'], 'replay': 'coroutines_replay', 'level': 'proof',
    'trusted_base': T_STATE + ['heapq.heappush/heappop by contract (pop removes a record of minimal wait_time, the others are kept)', 'deque as a list with popleft/rotate/append'],
    'assumptions': ['T3: dt, waits and the timer are exact reals'],
    'explanation': 'wf_C relates the five containers of a CoroutineProcessor; start/kill/state verified against it with exact ValueError/TypeError conditions.',
}

TABLE['C08'] = {
    'modules': ['coroutines_spec'], 'replay': 'coroutines_replay', 'level': 'proof',
    'trusted_base': TABLE['C09']['trusted_base'],
    'assumptions': ['T3: dt, waits and the timer are exact reals (float rounding of timer + dt is not modelled)',
                    'coroutine bodies do not advance coroutines themselves (next() on a generator owned by the processor)'],
    'explanation': 'Ghost clocks: need(r) is the number a coroutine yielded, since(r) the dt accumulated by process calls since then; the contract of process (not the code) advances since by dt on entry. Class invariant W11 ties the stored deadline to them (wait_time - timer == need - since); process is proved to wake a record iff since >= need, to create a record with need = yielded value and since = 0 for every positive yield, to leave the coroutine runnable otherwise, to step every runnable coroutine exactly once and to keep the relative order of those that stay runnable.',
}

TABLE['C15'] = {
    'modules': ['model_spec', 'transformers_spec'], 'replay': 'worldload_replay', 'level': 'other',
    'bounded_hook': 'pyvc.bounded_native',
    'bound': 'descriptions written to JSON files and loaded through WorldFromFileHandle inside a resource tree (every third one through populate_world_from_dict with real types): one component/processor with each of 20 argument values (numbers, None, booleans, plain strings, strings with a marker not at the beginning, the three reference forms to objects, resources, sub-maps and handles, lists and dicts) as positional, keyword and mixed argument; all descriptions of 0..2 entities (3 in the thorough tier) drawn from 4 component lists x 4 identifiers (absent, strings, an integer) x 4 processor lists',
    'trusted_base': T_STATE,
    'assumptions': ['json.load, open, copy.deepcopy, importlib.import_module by their documented behaviour; re: match iff a prefix is in the language, group of an exact form is the text between the markers',
                    'constructors of listed types return new objects'],
    'explanation': 'Deductive part: WorldHandle.load (new world, disabled before any transformer runs, every transformer called exactly once in deque order with (handle, world), on_world_load(handle, world) dispatched exactly once afterwards and queued last, returned disabled), the file handle\'s transformer list (defaults first), default_processors_transformer and populate_world_from_dict (exactly one construction per listed processor/component with the listed packs, add_processor / create_entity invoked with exactly those objects and identifiers, in order). The two map_function closures of the argument transformers are verified on z3 strings (patterns read from the real re.compile assignments): non-strings and strings not beginning with a marker pass through unchanged, the three exact forms are replaced by the named object / the loaded resource / the handle (markers taken from the property statement). That every element of args and every value of kwargs is run through them, type_dict_transformer, _apply_transformers, JSON reading and the end-to-end statement are covered by the BOUNDED native stand-in only.',
}

TABLE['C16'] = {
    'modules': ['populator_spec'], 'replay': 'populator_replay', 'level': 'other',
    'bounded_hook': 'pyvc.bounded_native',
    'bound': 'real directory trees in a temporary directory: every subset of up to 3 (4 in the thorough tier) entries of a pool of 14 files/directories (files with two extensions sharing a stem, a file without extension, nested and empty directories, a directory with a dot in its name) x 6 rule lists (no filter, filter with extra positional and keyword arguments, overlapping rules, a missing directory, nested rule directories) x nest_on_conflict x trim_extensions, the options given at construction, per call over the opposite values given at construction, or one of each (all four ways for trees of up to 2 entries, rotating for larger ones), populated once or twice, with and without an older handle under a key a file takes; plus targeted cases (rule path that is a regular file, equal stems, dot names)',
    'trusted_base': T_STATE,
    'assumptions': [],
    'explanation': 'Deductive part: the rule stores and passes on its arguments (instantiate: exactly one factory call with (path, *args, **kwargs)); the populator keeps its options and appends rules unchanged; __call__: options fall back to the constructor\'s, a rule path that exists and is not a directory raises ValueError and nothing else does, a missing one is skipped; the contract of ONE listing entry - skipped iff an extension filter rejects it, key = root-relative path with the separator replaced (stem of it for regular files when trimming), directory with a free key -> one new sub-map stored under the key, regular file -> one factory call and one store under the key, a new ChainMap layer pushed exactly when nesting is on and the key is held by a top-layer handle. Which paths glob lists, what the stores do to the tree (C11) and hence the whole-tree mirror are covered by the BOUNDED native stand-in only.',
}
