"""Property table: which sidecar modules decide which property."""

T_GLOBAL = [
    'T1 pyvc: AST->VC translation and the prelude contracts of Python builtins (mitigated by native replay, mutants, CPython differential)',
    'T2 z3 4.x (z3-solver wheel); second opinions where they decide',
]

TABLE = {
    'C18': {
        'modules': ['math_spec'],
        'replay': 'math_replay',
        'level': 'proof',
        'opts': {'inline_all': True},
        'trusted_base': T_GLOBAL + [
            'T3 Python float treated as the real field (exact over the rationals for the polynomial operations)',
            'sqrt/cos/sin/atan2 as axiomatised real functions (axioms instantiated per occurrence)'],
        'assumptions': [
            'machine arithmetic treated as mathematical: float rounding of sqrt/cos/sin/atan2 and error accumulation are NOT covered (DESIGN 9)',
            'vector/matrix arguments are Vec*/Mat* instances of the documented length with real entries'],
        'explanation': 'Every listed method of desper/math.py is executed symbolically from its real AST (loop-free after literal-length unrolling, calls inlined), and each postcondition - the textbook definition written in specs/math_spec.py - is discharged by z3 as an identity over the reals; swizzles are enumerated exhaustively.',
    },
}
