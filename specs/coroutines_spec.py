"""Contracts for desper/logic/coroutines.py: C09 (lifecycle) and C08 (timing).

wf_C relates the five containers of a CoroutineProcessor.  `heapq` is modelled by
its contract (heappush adds the record, heappop removes a record of minimal
wait_time, both keep `is_heap`); a deque is a list with popleft/rotate."""
import z3

from pyvc import theory as T, prelude
from pyvc.sym import forall
from pyvc.sym import (Con, ZV, TupV, SetV, DictV, ListV, Loc, TScalar, TBool, TInt, TReal, TSet, TDict,
                      TList, TSort, TOpt, usort, none_of, deref, NONE)
from pyvc.exec import OpenFn, BoundMethod, Builtin, ClassLevel, ExcV, PyRaise, ClassV
from . import events_spec as EV

K = 'desper.logic.coroutines.'
CP = TSort('CP')
Gen = TSort('Gen')
WRec = TSort('WRec')
Prom = TSort('Prom')
Obj = TSort('Obj')
ZERO = z3.Const('Zero_WRec', WRec.sort)      # the `0` sentinel of dict.get(generator, 0)

FIELDS = dict(
    _generators=TDict(Gen, WRec),
    _active_queue=TList(Gen),
    _wait_queue=TList(WRec),
    _kill_queue=TSet(Gen),
    _promises=TDict(Gen, Prom),
    _timer=TReal,
)

A_ = 'self._active_queue'
Wq_ = 'self._wait_queue'
WF_C = {
    # the frame sentinel: None occurs (position given by the Skolem term index_in) ...
    'W1a': ('0 <= index_in(%s, None) and index_in(%s, None) < len(%s) and '
            '%s[index_in(%s, None)] == None' % (A_, A_, A_, A_, A_), 'prop'),
    # ... and nothing occurs twice
    'W1b': ('all(implies(0 <= i and i < len(%s), index_in(%s, %s[i]) == i) for i in Int)'
            % (A_, A_, A_), 'prop'),
    # runnable <=> known without a wait record
    'W3a': ('all(implies(0 <= i and i < len(%s) and %s[i] != None, %s[i] in self._generators and '
            'self._generators[%s[i]] == None) for i in Int)' % (A_, A_, A_, A_), 'prop'),
    'W3b': ('all(implies(g in self._generators and self._generators[g] == None, '
            '0 <= index_in(%s, g) and index_in(%s, g) < len(%s) and %s[index_in(%s, g)] == g) '
            'for g in Gen)' % (A_, A_, A_, A_, A_), 'prop'),
    # waiting <=> known with its own record, which is in the heap exactly once
    'W4a': ('all(implies(0 <= i and i < len(%s), %s[i] != None and %s[i] != zero() and '
            '%s[i].generator in self._generators and self._generators[%s[i].generator] == %s[i]) '
            'for i in Int)' % (Wq_, Wq_, Wq_, Wq_, Wq_, Wq_), 'prop'),
    'W4b': ('all(implies(g in self._generators and self._generators[g] != None, '
            '0 <= index_in(%s, self._generators[g]) and index_in(%s, self._generators[g]) < len(%s) and '
            '%s[index_in(%s, self._generators[g])] == self._generators[g] and '
            'self._generators[g].generator == g) for g in Gen)' % (Wq_, Wq_, Wq_, Wq_, Wq_), 'prop'),
    'W4c': ('all(implies(0 <= i and i < len(%s) and 0 <= j and j < len(%s) and i != j, '
            '%s[i] != %s[j]) for i in Int for j in Int)' % (Wq_, Wq_, Wq_, Wq_), 'prop'),
    # records in the heap exist (a record created later is none of them)
    'W9': ('all(implies(0 <= i and i < len(%s), allocated(%s[i])) for i in Int)' % (Wq_, Wq_), 'aux'),
    'W5': ('all((g in self._promises) == (g in self._generators) for g in Gen) and '
           'all(implies(g in self._promises, self._promises[g] != None) for g in Gen)', 'prop'),
    'W6': ('all(implies(g in self._kill_queue, g in self._generators) for g in Gen)', 'prop'),
    # the wait queue is a heap: its first record has a minimal deadline
    'W8': ('all(implies(0 <= i and i < len(%s), %s[0].wait_time <= %s[i].wait_time) for i in Int)'
           % (Wq_, Wq_, Wq_), 'prop'),
    # C08: the deadline of a waiting record, read against the shared timer, is what is left of
    # the wait: need(r) is the number the coroutine yielded, since(r) the dt accumulated by
    # process() calls since then (ghost, advanced by the contract of process, not by the code)
    'W11': ('all(implies(0 <= i and i < len(%s), %s[i].wait_time - self._timer == '
            'need(%s[i]) - since(%s[i])) for i in Int)' % (Wq_, Wq_, Wq_, Wq_), 'prop'),
    'W7': ('not (None in self._generators) and all(implies(g in self._generators, '
           'self._generators[g] != zero() and isgen(g)) for g in Gen) and self._timer >= 0 and '
           'len(%s) >= 0 and len(%s) >= 0' % (A_, Wq_), 'aux'),
}


def declare(spec):
    if getattr(spec, '_co_common', False):
        return
    spec._co_common = True
    EV.declare_common(spec)
    for n in ('CP', 'Gen', 'WRec', 'Prom', 'Obj'):
        spec.sort_name(n)
    k = spec.klass(K + 'CoroutineProcessor', 'CP', fields=FIELDS)
    for name, (text, role) in WF_C.items():
        k.invariant(name, text, role)
    # what a coroutine body may do to the processor that is stepping it: start other
    # generators, kill running ones, query states (C09 quantifies over these)
    k.rely += [
        ('started-run-after-the-current-ones', 'is_prefix(old(self._active_queue), self._active_queue)'),
        ('waiting-untouched', 'self._wait_queue == old(self._wait_queue) and self._timer == old(self._timer)'),
        ('known-stay-known', 'all(implies(g in old(self._generators), g in self._generators and '
                             'self._generators[g] == old(self._generators)[g] and '
                             'self._promises[g] == old(self._promises)[g]) for g in Gen)'),
        ('started-are-active', 'all(implies(g in self._generators and not (g in old(self._generators)), '
                               'self._generators[g] == None) for g in Gen)'),
        ('kills-only-added', 'all(implies(g in old(self._kill_queue), g in self._kill_queue) for g in Gen)'),
    ]
    T.declare_class_of('CP', K + 'CoroutineProcessor')
    spec.klass(None, 'Gen')
    spec.klass(None, 'Obj')
    Wk = spec.klass(K + '_WaitingGenerator', 'WRec', fields=dict(generator=Gen, wait_time=TReal))
    Pk = spec.klass(K + 'CoroutinePromise', 'Prom', fields=dict(_generator=Gen, _processor=CP, value=Obj))
    spec.define('zero', lambda X: ZV(ZERO))

    def index_in(X, lst, x):
        lst = deref(lst)
        return ZV(prelude.idxof(lst, lst.E.to_leaves(x)))
    spec.define('index_in', index_in)
    spec.extra_global_axioms = getattr(spec, 'extra_global_axioms', []) + [ZERO != none_of(WRec.sort)]
    ISGEN = z3.Function('isgen', Gen.sort, z3.BoolSort())
    spec.define('isgen', lambda X, g: ZV(ISGEN(deref(g).t)))
    spec.externals['inspect.isgenerator'] = lambda X: Builtin(
        'inspect.isgenerator', lambda X, a, k, n: ZV(z3.And(deref(a[0]).t != none_of(Gen.sort),
                                                            ISGEN(deref(a[0]).t))))

    RealArr = z3.ArraySort(WRec.sort, z3.RealSort())
    OptReal = TOpt(TReal)

    def arr_ghost(name, sort):
        def hv(X):
            X.ghost[name] = z3.Const(X.fresh_name(name), sort)
        spec.ghost_decls[name] = hv

        def get(X):
            if name not in X.ghost:
                hv(X)
            return X.ghost[name]
        return get
    need_arr = arr_ghost('need', RealArr)
    since_arr = arr_ghost('since', RealArr)
    yvn_arr = arr_ghost('yv_none', z3.ArraySort(Gen.sort, z3.BoolSort()))
    yvv_arr = arr_ghost('yv_val', z3.ArraySort(Gen.sort, z3.RealSort()))
    # the value the latest step of g yielded: yielded_none(g) / yielded(g)
    spec.define('yielded_none', lambda X, g: ZV(yvn_arr(X)[deref(g).t]))
    spec.define('yielded', lambda X, g: ZV(yvv_arr(X)[deref(g).t]))
    spec._co_yv_value = lambda X, g: yvv_arr(X)[g]
    # ended(g): the latest step of g returned or raised instead of yielding
    end_arr = arr_ghost('ended', z3.ArraySort(Gen.sort, z3.BoolSort()))
    spec.define('ended', lambda X, g: ZV(end_arr(X)[deref(g).t]))
    retc_arr = arr_ghost('retc', z3.ArraySort(Gen.sort, z3.IntSort()))
    retv_arr = arr_ghost('retv', z3.ArraySort(Gen.sort, Obj.sort))
    spec.define('returns_so_far', lambda X, g: ZV(retc_arr(X)[deref(g).t]))
    spec.define('returned_value', lambda X, g: ZV(retv_arr(X)[deref(g).t]))
    # marks over positions (ghost arrays Int -> Bool)
    MARKS = TScalar(z3.ArraySort(z3.IntSort(), z3.BoolSort()))
    spec._co_MARKS = MARKS
    spec.define('no_marks', lambda X: ZV(z3.K(z3.IntSort(), z3.BoolVal(False))))
    spec.define('mark', lambda X, a, i, b: ZV(z3.Store(deref(a).t, X.num(i), X._z(X.truth(b)))))
    spec.define('marked', lambda X, a, i: ZV(deref(a).t[X.num(i)]))
    spec._co_POS = TScalar(z3.ArraySort(z3.IntSort(), z3.IntSort()))
    spec.define('place', lambda X, a, i: ZV(deref(a).t[X.num(i)]))
    spec.define('need', lambda X, r: ZV(need_arr(X)[deref(r).t]))
    spec.define('since', lambda X, r: ZV(since_arr(X)[deref(r).t]))
    spec._co_arrs = (need_arr, since_arr)
    spec.define('stepped', lambda X, g: ZV(T.cnt_get(X)[T.call_term('next', deref(g).t)]))

    # _WaitingGenerator(gen, wait_time): dataclass constructor (fields in declaration order)
    def mk_wrec(X, cv, args, kwargs, node):
        o = z3.Const(X.fresh_name('new_WRec'), WRec.sort)
        alloc = spec.alloc_array(X, WRec.sort)
        X.assume(z3.Not(alloc[o]))
        X.assume(z3.And(o != none_of(WRec.sort), o != ZERO))
        X.ghost['alloc_WRec'] = z3.Store(alloc, o, True)
        X.write_field(o, 'generator', args[0])
        X.write_field(o, 'wait_time', ZV(T._coerce(args[1], z3.RealSort())))
        # ghost: the record stands for the wait its generator has just asked for
        g = deref(args[0]).t
        X.ghost['need'] = z3.Store(need_arr(X), o, spec._co_yv_value(X, g))
        X.ghost['since'] = z3.Store(since_arr(X), o, z3.RealVal(0))
        return ZV(o)
    spec.constructors[K + '_WaitingGenerator'] = mk_wrec
    spec.ghost_decls['alloc_WRec'] = spec.alloc_havoc('WRec')
    spec.ghost_decls['alloc_Prom'] = spec.alloc_havoc('Prom')

    # CoroutineState members as integers (IntEnum)
    for nm, v in (('TERMINATED', 0), ('PAUSED', 1), ('ACTIVE', 2)):
        spec.class_attr_load[(K + 'CoroutineState', nm)] = (lambda v: lambda X, cv: Con(v))(v)
    spec.zero_sentinels = {WRec.sort.name(): ZERO}

    # deque((None,)) / heapq
    def deque_new(X):
        return Builtin('deque', lambda X, a, k, n: TupV(X.iter_concrete(a[0], n) if a else [], is_list=True))
    spec.externals['collections.deque'] = deque_new

    def heap_permutation(X, lst, new, skip_old=None, extra=None):
        """`new` holds exactly the records of `lst` (minus index skip_old, plus `extra` at
        index given by the fresh constant) and its first record has a minimal deadline."""
        i, j = z3.Ints('i_hp j_hp')
        at, nat = lst.ats[0], new.ats[0]
        wt = lambda t: deref(X.read_field(t, 'wait_time')).t        # noqa: E731
        src = z3.Function(X.fresh_name('hp_src'), z3.IntSort(), z3.IntSort())
        dst = z3.Function(X.fresh_name('hp_dst'), z3.IntSort(), z3.IntSort())
        xpos = z3.Int(X.fresh_name('hp_x'))
        is_extra = (i == xpos) if extra is not None else z3.BoolVal(False)
        if extra is not None:
            X.assume(z3.And(0 <= xpos, xpos < new.n, nat[xpos] == extra))
        X.assume(forall([i], z3.Implies(z3.And(0 <= i, i < new.n, z3.Not(is_extra)),
                                        z3.And(0 <= src(i), src(i) < lst.n,
                                               src(i) != skip_old if skip_old is not None else True,
                                               nat[i] == at[src(i)], dst(src(i)) == i)),
                        patterns=[nat[i]]))
        keep = z3.And(0 <= j, j < lst.n, j != skip_old) if skip_old is not None else z3.And(0 <= j, j < lst.n)
        X.assume(forall([j], z3.Implies(keep, z3.And(0 <= dst(j), dst(j) < new.n, src(dst(j)) == j,
                                                     nat[dst(j)] == at[j],
                                                     dst(j) != xpos if extra is not None else True)),
                        patterns=[at[j]]))
        X.assume(forall([i], z3.Implies(z3.And(0 <= i, i < new.n), wt(nat[0]) <= wt(nat[i])),
                        patterns=[nat[i]]))

    def heappush(X):
        def fn(X, a, k, n):
            lst = deref(a[0])
            x = T._coerce(a[1], WRec.sort)
            new = X.fresh(TList(WRec), 'heap_after')
            X.assume(new.n == lst.n + 1)
            heap_permutation(X, lst, new, extra=x)
            a[0].set(new)
            return NONE
        return Builtin('heapq.heappush', fn)
    spec.externals['heapq.heappush'] = heappush

    def heappop(X):
        def fn(X, a, k, n):
            """Removes and returns the first record (minimal deadline); the others are
            kept (re-arranged, the first one again minimal)."""
            lst = deref(a[0])
            if X.branch(lst.n <= 0):
                X.raise_('IndexError', 'index out of range', node=n)
            r = ZV(lst.ats[0][0])
            new = X.fresh(TList(WRec), 'heap_after')
            X.assume(new.n == lst.n - 1)
            heap_permutation(X, lst, new, skip_old=z3.IntVal(0))
            a[0].set(new)
            return r
        return Builtin('heapq.heappop', fn)
    spec.externals['heapq.heappop'] = heappop

    # next(generator): one step of user code, which may start / kill / query coroutines
    spec.ghost_decls['steps'] = TList(Gen)

    def steps(X):
        if 'steps' not in X.ghost:
            spec.havoc_ghost(X, 'steps')
        return X.ghost['steps']
    spec.define('steps', steps)

    def next_hook(X, v, node):
        if not (isinstance(v, ZV) and v.t.sort() == Gen.sort):
            X.unsupported('next(%r)' % (v,), node)
        st = steps(X)
        X.ghost['steps'] = ListV(st.E, st.n + 1, [z3.Store(st.ats[0], st.n, v.t)])
        c = T.call_term('next', v.t)
        site = spec.site_config(X, node)
        # StopIteration carries the returned value
        try:
            r = T.open_site(X, c, node, result_T=TOpt(TReal), reenter=site.get('reenter', True),
                            raises=site.get('raises', ['StopIteration', '$OtherException']),
                            name='next(coroutine)')
        except PyRaise as pr:
            # the step ended the generator (or failed): it yielded nothing
            X.ghost['yv_none'] = z3.Store(yvn_arr(X), v.t, z3.BoolVal(True))
            X.ghost['ended'] = z3.Store(end_arr(X), v.t, z3.BoolVal(True))
            if pr.exc.cls == 'StopIteration' and 'value' in pr.exc.fields:
                # ghost: the value the generator returned (carried by StopIteration)
                rc = retc_arr(X)
                X.ghost['retc'] = z3.Store(rc, v.t, rc[v.t] + 1)
                X.ghost['retv'] = z3.Store(retv_arr(X), v.t, deref(pr.exc.fields['value']).t)
            raise
        X.ghost['ended'] = z3.Store(end_arr(X), v.t, z3.BoolVal(False))
        rl = TOpt(TReal).to_leaves(r)
        X.ghost['yv_none'] = z3.Store(yvn_arr(X), v.t, rl[0])
        X.ghost['yv_val'] = z3.Store(yvv_arr(X), v.t, rl[1])
        return r
    spec.next_hook = next_hook
    spec.exc_field_types = dict(getattr(spec, 'exc_field_types', {}))
    spec.exc_field_types[('StopIteration', 'value')] = Obj


def register(spec):
    declare(spec)
    C = spec.contract
    q = K + 'CoroutineProcessor.'
    wf = ['wf(self)']
    running = '(generator in self._generators and not (generator in self._kill_queue))'
    old_running = '(generator in old(self._generators) and not (generator in old(self._kill_queue)))'

    C(q + '__init__', params=dict(self=CP), props=['C09'],
      modifies=['self._generators', 'self._active_queue', 'self._wait_queue', 'self._kill_queue',
                'self._promises', 'self._timer'],
      ensures={'wf': ('wf(self)', 'prop'), 'nothing-running': 'all(not (g in self._generators) for g in Gen)'})

    C(q + 'state', params=dict(self=CP, generator=Gen), props=['C09'], requires=wf, returns=TInt,
      ensures={
          'is-a-generator': 'generator != None and isgen(generator)',
          'terminated-iff-not-running': 'implies(not %s, result == 0)' % running,
          'active-iff-runnable': 'implies(%s and self._generators[generator] == None, result == 2)' % running,
          'paused-iff-waiting': 'implies(%s and self._generators[generator] != None, result == 1)' % running,
      },
      raises={'TypeError': {'only-non-generators': 'generator == None or not isgen(generator)',
                            'nothing-changes': 'unchanged_except(self, "")'}})

    C(q + 'kill', params=dict(self=CP, generator=Gen), props=['C09'], requires=wf,
      modifies=['self._kill_queue'],
      ensures={'wf': ('wf(self)', 'prop'),
               'was-running': old_running,
               'terminated-at-once': 'not %s' % running,
               'only-marks': 'all((g in self._kill_queue) == (g in old(self._kill_queue) or g == generator) '
                             'for g in Gen)'},
      raises={'TypeError': {'only-non-generators': 'generator == None or not isgen(generator)',
                            'nothing-changes': 'unchanged_except(self, "")'},
              'ValueError': {'only-when-not-running': 'not %s' % old_running,
                             'nothing-changes': 'unchanged_except(self, "")'}})

    C(q + 'start', params=dict(self=CP, generator=Gen), props=['C09'], requires=wf, returns=Prom,
      modifies=['self._active_queue', 'self._generators', 'self._promises', 'ghost:alloc_Prom',
                'Prom._generator', 'Prom._processor', 'Prom.value'],
      ensures={'wf': ('wf(self)', 'prop'),
               'was-not-running': 'not %s' % old_running,
               'becomes-active': '%s and self._generators[generator] == None' % running,
               'runs-after-the-already-started': (
                   'len(self._active_queue) == len(old(self._active_queue)) + 1 and '
                   'self._active_queue[len(old(self._active_queue))] == generator and '
                   'is_prefix(old(self._active_queue), self._active_queue)'),
               'fresh-promise': 'result != None and self._promises[generator] == result and '
                                'result._generator == generator and result._processor == self and '
                                'not old(allocated(result))',
               'others-untouched': 'all(implies(g != generator, (g in self._generators) == '
                                   '(g in old(self._generators)) and implies(g in self._generators, '
                                   'self._generators[g] == old(self._generators)[g])) for g in Gen) and '
                                   'self._kill_queue == old(self._kill_queue) and '
                                   'self._wait_queue == old(self._wait_queue) and '
                                   'self._timer == old(self._timer)'},
      raises={'TypeError': {'only-non-generators': 'generator == None or not isgen(generator)',
                            'nothing-changes': 'unchanged_except(self, "")'},
              'ValueError': {'only-when-running': old_running,
                             'nothing-changes': 'unchanged_except(self, "")'}})
    spec.define('allocated', lambda X, o: ZV(spec.alloc_array(X, deref(o).t.sort())[deref(o).t]))

    pq = K + 'CoroutinePromise.'
    C(pq + 'state', params=dict(self=Prom), props=['C09'],
      requires=['self._processor != None', 'wf(self._processor)'], returns=TInt,
      ensures={'same-as-the-processor': (
          'let(generator=self._generator, p=self._processor, body='
          'implies(not (generator in p._generators and not (generator in p._kill_queue)), result == 0))')},
      raises={'TypeError': {'only-non-generators': 'self._generator == None or not isgen(self._generator)'}})


def register_process(spec):
    C = spec.contract
    q = K + 'CoroutineProcessor.'
    ALLF = ['self._generators', 'self._active_queue', 'self._wait_queue', 'self._kill_queue',
            'self._promises', 'self._timer']
    HAV = ALLF + ['ghost:steps', 'ghost:log', 'ghost:cnt', 'ghost:alloc_WRec', 'WRec.generator',
                  'WRec.wait_time', 'Prom.value', 'ghost:need', 'ghost:since', 'ghost:yv_none', 'ghost:yv_val',
                  'ghost:ended', 'ghost:retc', 'ghost:retv']
    G_ = 'self._generators'
    waiting0 = '(g in old(%s) and old(%s)[g] != None)' % (G_, G_)
    kept = '(g in %s and %s[g] == old(%s)[g])' % (G_, G_, G_)

    def advance_clocks(X, env):
        # ghost prologue of process(dt): every existing wait record has accumulated dt more
        need_arr, since_arr = spec._co_arrs
        old = since_arr(X)
        new = z3.Const(X.fresh_name('since_adv'), old.sort())
        r = z3.Const('r_adv', WRec.sort)
        X.assume(forall([r], new[r] == old[r] + deref(env['dt']).t, patterns=[new[r]]))
        X.ghost['since'] = new
    TIMING = {
        # C08 'never earlier, never later': a waiting coroutine is woken in this call iff the dt
        # accumulated since its yield (this call included) has reached the number it yielded
        'woken-exactly-when-the-wait-has-elapsed': (
            'all(implies(%s, (since(old(%s)[g]) >= need(old(%s)[g])) == (not %s)) for g in Gen)'
            % (waiting0, G_, G_, kept), 'prop'),
        # a positive yield starts a wait for exactly that number, nothing accumulated yet
        'positive-yield-starts-that-wait': (
            'all(implies(stepped(g) > old(stepped(g)) and not yielded_none(g) and yielded(g) > 0, '
            'g in %s and let(r=%s[g], body=r != None and not old(allocated(r)) and '
            'need(r) == yielded(g) and since(r) == 0)) for g in Gen)' % (G_, G_), 'prop'),
        # nothing, zero or a negative number: runnable again next frame
        'other-yields-mean-next-frame': (
            'all(implies(stepped(g) > old(stepped(g)) and (yielded_none(g) or yielded(g) <= 0) and '
            'g in %s, %s[g] == None) for g in Gen)' % (G_, G_), 'prop'),
        'clocks-of-old-records-only-advance-by-dt': (
            'all(implies(old(allocated(r)), need(r) == old(need(r)) and since(r) == old(since(r)) + dt) '
            'for r in WRec)', 'prop'),
    }
    A0 = 'old(self._active_queue)'
    A = 'self._active_queue'
    elapsed = '(since(old(%s)[g]) >= need(old(%s)[g]))' % (G_, G_)
    inQ1 = '(0 <= index_in(Q1, g) and index_in(Q1, g) < len(Q1) - 1 and Q1[index_in(Q1, g)] == g)'
    once = '(stepped(Q1[i]) == old(stepped(Q1[i])) + (0 if marked(skipped, i) else 1))'

    def stay(x):
        return ('(stepped(%s) > old(stepped(%s)) and not ended(%s) and (yielded_none(%s) or yielded(%s) <= 0))'
                % (x, x, x, x, x))
    STEPS = {
        # Q1 (ghost): the coroutines due in this frame, in the order they are run; skipped marks
        # the positions whose coroutine had a kill pending when its turn came
        'due-are-the-runnable-ones-in-order-then-the-woken': (
            'len(Q1) >= len(%s) and all(implies(1 <= i and i < len(%s), Q1[i - 1] == %s[i]) for i in Int) and '
            'all(implies(len(%s) - 1 <= i and i < len(Q1) - 1, let(g=Q1[i], body=%s and %s)) for i in Int)'
            % (A0, A0, A0, A0, waiting0, elapsed), 'prop'),
        'every-woken-coroutine-is-due': (
            'all(implies(%s and %s and not (g in old(self._kill_queue)), %s) for g in Gen)'
            % (waiting0, elapsed, inQ1), 'prop'),
        'each-due-coroutine-advanced-exactly-once': (
            'all(implies(0 <= i and i < len(Q1) - 1, %s) for i in Int)' % once, 'prop'),
        'nothing-else-advanced': (
            'all(implies(not %s, stepped(g) == old(stepped(g))) for g in Gen)' % inQ1, 'prop'),
        'those-that-stay-runnable-keep-their-order': (
            'all(implies(0 <= i and i < k and k < len(Q1) - 1 and %s and %s, '
            '0 < place(W, i) and place(W, i) < place(W, k) and place(W, k) < len(%s) and '
            '%s[place(W, i)] == Q1[i] and %s[place(W, k)] == Q1[k]) for i in Int for k in Int)'
            % (stay('Q1[i]'), stay('Q1[k]'), A, A, A), 'prop'),
    }
    C(q + 'process', params=dict(self=CP, dt=TReal), props=['C08', 'C09'],
      requires=['wf(self)', 'dt >= 0', 'len(self._active_queue) >= 1 and self._active_queue[0] == None'],
      modifies=HAV, open_effect=True,
      ensures=dict({
          'wf': ('wf(self)', 'prop'),
          'frame-boundary-restored': 'self._active_queue[0] == None',
      }, **dict(TIMING, **STEPS)),
      ghost_results={'Q1': ('named', 'Q1', TList(Gen)), 'skipped': ('named', 'skipped', spec._co_MARKS),
                     'W': ('named', 'W', spec._co_POS)},
      raises={'$OtherException': {'from-a-coroutine-body': 'True'}})
    spec.contracts[q + 'process'].ghost_prologue = advance_clocks
    INV_T = {
        'clocks': TIMING['clocks-of-old-records-only-advance-by-dt'][0],
        'alloc-monotone': 'all(implies(old(allocated(r)), allocated(r)) for r in WRec)',
    }
    spec.sites['CoroutineProcessor.process'] = {'reenter': True}
    def w_init(X, env):
        return ZV(z3.Const(X.fresh_name('W_init'), spec._co_POS.sort))

    def w_step(X, now, env_head):
        # every iteration consumes the head: all places move up by one; the head, if it was
        # rotated, is now last
        W0 = deref(now['W']).t
        j0 = X.num(now['j'])
        W1 = z3.Const(X.fresh_name('W_step'), W0.sort())
        i = z3.Int('i_w')
        A_now = deref(X.read_field(deref(now['self']).t, '_active_queue'))
        X.assume(forall([i], W1[i] == z3.If(i == j0, A_now.n - 1, W0[i] - 1), patterns=[W1[i]]))
        return ZV(W1)
    spec.loop(q + 'process', 0, invariants=dict({
        'wf': 'wf(self)',
        'sentinel-first': 'len(self._active_queue) >= 1 and self._active_queue[0] == None',
        # woken so far: only records whose wait has elapsed; nothing else lost its record
        'woken-only-when-elapsed': 'all(implies(%s, %s or since(old(%s)[g]) >= need(old(%s)[g])) '
                                   'for g in Gen)' % (waiting0, kept, G_, G_),
        'no-new-waits': 'all(implies(g in %s and %s[g] != None, %s and %s) for g in Gen)'
                        % (G_, G_, waiting0, kept),
        'nothing-stepped': 'all(stepped(g) == old(stepped(g)) for g in Gen)',
        # runnable ones keep their places, woken ones are appended
        'runnable-keep-places': 'is_prefix(%s, %s)' % (A0, A),
        'appended-were-woken': 'all(implies(len(%s) <= i and i < len(%s), let(g=%s[i], body=%s and %s)) '
                               'for i in Int)' % (A0, A, A, waiting0, elapsed),
        'kills-as-at-entry': 'all(implies(g in self._kill_queue, g in old(self._kill_queue)) for g in Gen)',
        'woken-are-runnable': 'all(implies(%s and not %s and not (g in old(self._kill_queue)), '
                              'g in %s and %s[g] == None) for g in Gen)' % (waiting0, kept, G_, G_),
    }, **INV_T), havoc=HAV, vars={'gen': Gen})
    spec.loop(q + 'process', 1, invariants=dict({
        'wf': 'wf(self)',
        'woken-exactly-when-elapsed': TIMING['woken-exactly-when-the-wait-has-elapsed'][0],
        'positive-yield': TIMING['positive-yield-starts-that-wait'][0],
        'other-yields': TIMING['other-yields-mean-next-frame'][0],
        'timer-fixed': 'self._timer == T1',
        'progress': '0 <= j and j <= len(Q1) - 1',
        'still-to-do': 'len(Q1) - 1 - j < len(%s) and %s[len(Q1) - 1 - j] == None and '
                       'all(implies(0 <= i and i < len(Q1) - 1 - j, %s[i] == Q1[j + i]) for i in Int)' % (A, A, A),
        'done-once': 'all(implies(0 <= i and i < j, %s) for i in Int)' % once,
        'rest-not-yet': 'all(implies(j <= i and i < len(Q1) - 1, stepped(Q1[i]) == old(stepped(Q1[i]))) '
                        'for i in Int)',
        'nothing-else': STEPS['nothing-else-advanced'][0],
        # those rotated so far sit behind the sentinel, in the order of their turns; W (ghost)
        # gives the place of each in the queue
        'rotated-are-behind': 'all(implies(0 <= i and i < j and %s, len(Q1) - 1 - j < place(W, i) and '
                              'place(W, i) < len(%s) and %s[place(W, i)] == Q1[i]) for i in Int)'
                              % (stay('Q1[i]'), A, A),
        'rotated-in-order': 'all(implies(0 <= i and i < k and k < j and %s and %s, '
                            'place(W, i) < place(W, k)) for i in Int for k in Int)'
                            % (stay('Q1[i]'), stay('Q1[k]')),
    }, **INV_T), havoc=HAV, vars={'gen': Gen, 'wait': TOpt(TReal), 'waiting_gen': WRec},
        entry={'T1': 'self._timer', 'Q1': 'self._active_queue'},
        head={'hk': 'self._active_queue[0] in self._kill_queue', 'hd': 'self._active_queue[0]'},
        body_ensures={
            # C09: a coroutine that returns hands the returned object - whatever it is, falsy
            # values included - to the promise it had when that last step began
            'returned-value-handed-to-the-promise': (
                'implies(returns_so_far(hd) > old(returns_so_far(hd)), '
                'old(self._promises)[hd].value == returned_value(hd))'),
        },
        ghost={'j': (TInt, '0', 'j + 1'),
               'skipped': (spec._co_MARKS, 'no_marks()', 'mark(skipped, j, hk)'),
               'W': (spec._co_POS, w_init, w_step)})


_reg_co0 = register


def register(spec):     # noqa: F811
    _reg_co0(spec)
    register_process(spec)
