"""Prelude: contracts of Python builtins and container methods (trusted, T1).

Each mutating list operation that cannot be a plain Store is a pointwise
definitional axiom on a fresh array, with an explicit trigger.
"""
import ast
import z3

from .sym import forall
from .sym import (Val, Con, ZV, TupV, SetV, DictV, ListV, OptV, StrV, Loc, NONE,
                  TScalar, TInt, TReal, TBool, TStr, TSet, TDict, TList, TTuple,
                  TOpt, OutOfSubset, deref, coerce_term, ite, usort, none_of,
                  is_usort, type_of_val, list_from_items, str_const)


def _B(name, fn):
    from .exec import Builtin
    return Builtin(name, fn)


def zbool(x):
    return z3.BoolVal(x) if isinstance(x, bool) else x


# ------------------------------------------------------------- theory symbols

def type_of(X, t):
    """type(x) for an object term: a function into sort Type."""
    f = z3.Function('type_of_' + t.sort().name(), t.sort(), usort('Type'))
    return f(t)


_class_consts = {}


def class_term(X, cv, sort=None):
    """A repo/builtin class as a constant of sort Type."""
    T = usort('Type')
    if cv.qual not in _class_consts:
        _class_consts[cv.qual] = z3.Const('cls_' + cv.qual.replace('.', '_'), T)
    return _class_consts[cv.qual]


def class_consts_axioms():
    cs = list(_class_consts.values())
    if len(cs) > 1:
        return [z3.Distinct(*(cs + [none_of(usort('Type'))]))]
    return []


def desc(T1, T2):
    """issubclass(T2, T1): T2 is T1 or inherits from it."""
    f = z3.Function('desc', usort('Type'), usort('Type'), z3.BoolSort())
    return f(T1, T2)


def subs_len(T):
    return z3.Function('subs_len', usort('Type'), z3.IntSort())(T)


def subs_arr(T):
    return z3.Function('subs_arr', usort('Type'), z3.ArraySort(z3.IntSort(), usort('Type')))(T)


def subs_at(T, i):
    return subs_arr(T)[i]


def next_sub(T, S):
    """Skolem: index in subs(T) of a direct subclass that is an ancestor of S."""
    return z3.Function('next_sub', usort('Type'), usort('Type'), z3.IntSort())(T, S)


def hierarchy_axioms():
    Ty = usort('Type')
    a, b, c = z3.Consts('hx hy hz', Ty)
    i = z3.Int('hi')
    ax = [
        forall([a], desc(a, a), patterns=[desc(a, a)]),
        # transitivity restricted to one step down (the general rule makes
        # E-matching loop and is derivable from this one by induction)
        forall([a, b, i], z3.Implies(z3.And(desc(a, b), 0 <= i, i < subs_len(b)),
                                     desc(a, subs_at(b, i))),
               patterns=[z3.MultiPattern(desc(a, b), subs_at(b, i))]),
        forall([a], subs_len(a) >= 0, patterns=[subs_len(a)]),
        forall([a, i], z3.Implies(z3.And(0 <= i, i < subs_len(a)),
                                     z3.And(desc(a, subs_at(a, i)), subs_at(a, i) != a,
                                            subs_at(a, i) != none_of(Ty))),
                  patterns=[subs_at(a, i)]),
        forall([a, b], z3.Implies(z3.And(desc(a, b), a != b),
                                     z3.And(0 <= next_sub(a, b), next_sub(a, b) < subs_len(a),
                                            desc(subs_at(a, next_sub(a, b)), b))),
               # instantiated only where a witness index is actually mentioned
               # (triggering on desc(a, b) makes E-matching descend forever)
               patterns=[next_sub(a, b)]),
    ]
    return ax


# -------------------------------------------------------------------- builtins

def make_builtins(X):
    from .exec import Builtin, ClassV
    b = {}

    def reg(name):
        def deco(fn):
            b[name] = Builtin(name, fn)
            return fn
        return deco

    @reg('print')
    def _print(X, args, kw, node):
        return NONE

    @reg('len')
    def _len(X, args, kw, node):
        v = deref(args[0])
        if isinstance(v, TupV):
            return Con(len(v.items))
        if isinstance(v, Con):
            try:
                return Con(len(v.v))
            except TypeError:
                X.raise_('TypeError', 'len', node=node)
        if isinstance(v, ListV):
            return ZV(v.n)
        if isinstance(v, (SetV, DictV)):
            return ZV(card(X, v))
        if isinstance(v, ZV) and v.t.sort() == z3.StringSort():
            return ZV(z3.Length(v.t))
        if isinstance(v, ZV) and is_usort(v.t.sort()):
            h = X.spec.len_hooks.get(v.t.sort().name())
            if h:
                return h(X, v, node)
        X.unsupported('len of %r' % (v,), node)

    @reg('tuple')
    def _tuple(X, args, kw, node):
        if not args:
            return TupV([])
        return to_sequence(X, args[0], node, as_list=False)

    @reg('list')
    def _list(X, args, kw, node):
        if not args:
            return TupV([], is_list=True)
        return to_sequence(X, args[0], node, as_list=True)

    @reg('set')
    def _set(X, args, kw, node):
        if not args:
            return Con(set())
        v = deref(args[0])
        if isinstance(v, SetV):
            return SetV(v.K, v.arr)
        if isinstance(v, TupV):
            if not v.items:
                return Con(set())
            K = type_of_val(v.items[0])
            s = TSet(K).empty()
            for it in v.items:
                s = SetV(K, z3.Store(s.arr, coerce_term(it, K.sort), True))
            return s
        if isinstance(v, Con) and isinstance(v.v, (tuple, list, set, frozenset)):
            return Con(set(v.v))
        if isinstance(v, DictKeys):
            d = deref(v.d)
            return SetV(d.K, d.dom)
        if isinstance(v, ListV):
            return list_to_set(X, v)
        X.unsupported('set(%r)' % (v,), node)

    b['frozenset'] = Builtin('frozenset', _set)

    @reg('dict')
    def _dict(X, args, kw, node):
        ov = getattr(X.spec, 'builtin_overrides', {}).get('dict')
        if ov is not None:
            r = ov(X, args, kw, node)
            if r is not None:
                return r
        if not args and not kw:
            return Con({})
        if args:
            v = deref(args[0])
            if isinstance(v, TupV) and all(isinstance(deref(x), TupV) and len(deref(x).items) == 2
                                          for x in v.items):
                d = {}
                for x in v.items:
                    k, val = deref(x).items
                    k = deref(k)
                    if not isinstance(k, Con):
                        X.unsupported('dict() with symbolic keys', node)
                    d[k.v] = val
                d.update(kw)
                return Con(d)
            if isinstance(v, Con) and isinstance(v.v, dict):
                d = dict(v.v)
                d.update(kw)
                return Con(d)
            if isinstance(v, DictV) and not kw:
                return v
        else:
            return Con(dict(kw))
        X.unsupported('dict(%r)' % (args,), node)

    @reg('zip')
    def _zip(X, args, kw, node):
        ov = getattr(X.spec, 'builtin_overrides', {}).get('zip')
        if ov is not None:
            r = ov(X, args, kw, node)
            if r is not None:
                return r
        seqs = [X.iter_concrete(a, node) for a in args]
        n = min(len(s) for s in seqs) if seqs else 0
        return TupV([TupV([s[i] for s in seqs]) for i in range(n)], is_list=True)

    @reg('map')
    def _map(X, args, kw, node):
        f = args[0]
        if not all(X.has_concrete_len(a) for a in args[1:]):
            if len(args) == 2:
                return LazyMap(f, args[1])
            X.unsupported('map over symbolic sequences', node)
        seqs = [X.iter_concrete(a, node) for a in args[1:]]
        n = min(len(s) for s in seqs)
        return TupV([X.call(f, [s[i] for s in seqs], {}, node) for i in range(n)], is_list=True)

    @reg('filter')
    def _filter(X, args, kw, node):
        f, seq = args
        if X.has_concrete_len(seq):
            out = []
            for it in X.iter_concrete(seq, node):
                t = X.truth(X.call(f, [it], {}, node))
                if not isinstance(t, bool):
                    return LazyFilter(f, seq)
                if t:
                    out.append(it)
            return TupV(out, is_list=True)
        return LazyFilter(f, seq)

    @reg('sum')
    def _sum(X, args, kw, node):
        acc = args[1] if len(args) > 1 else Con(0)
        for it in X.iter_concrete(args[0], node):
            acc = X.binop(ast.Add(), acc, it, node)
        return acc

    def minmax(which):
        def fn(X, args, kw, node):
            items = args if len(args) > 1 else X.iter_concrete(args[0], node)
            acc = items[0]
            for it in items[1:]:
                # Python: max keeps the first maximal; min the first minimal
                c = X.compare(ast.Gt() if which == 'max' else ast.Lt(), it, acc, node)
                t = X.truth(c)
                if isinstance(t, bool):
                    acc = it if t else acc
                else:
                    acc = ite(t, it, acc)
            return acc
        return fn

    b['min'] = Builtin('min', minmax('min'))
    b['max'] = Builtin('max', minmax('max'))

    @reg('abs')
    def _abs(X, args, kw, node):
        v = deref(args[0])
        if isinstance(v, Con):
            return Con(abs(v.v))
        if isinstance(v, TupV) and v.cls:
            return X.call_dunder(v, '__abs__', [], node)
        x = X.num(v, node)
        return ZV(z3.If(x >= 0, x, -x))

    @reg('range')
    def _range(X, args, kw, node):
        vs = [deref(a) for a in args]
        if all(isinstance(v, Con) for v in vs):
            return Con(range(*[v.v for v in vs]))
        return SymRange(vs)

    @reg('enumerate')
    def _enumerate(X, args, kw, node):
        if X.has_concrete_len(args[0]):
            return TupV([TupV([Con(i), x]) for i, x in enumerate(X.iter_concrete(args[0], node))],
                        is_list=True)
        return Enumerate(args[0])

    @reg('all')
    def _all(X, args, kw, node):
        v = deref(args[0])
        if isinstance(v, QuantV):
            return ZV(v.forall())
        acc = []
        for it in X.iter_concrete(v, node):
            t = X.truth(it)
            if X.spec_mode:
                acc.append(zbool(t))
            else:
                if not X.branch(t):
                    return Con(False)
        if X.spec_mode:
            return ZV(z3.And(*acc)) if acc else Con(True)
        return Con(True)

    @reg('any')
    def _any(X, args, kw, node):
        v = deref(args[0])
        if isinstance(v, QuantV):
            return ZV(v.exists())
        acc = []
        for it in X.iter_concrete(v, node):
            t = X.truth(it)
            if X.spec_mode:
                acc.append(zbool(t))
            else:
                if X.branch(t):
                    return Con(True)
        if X.spec_mode:
            return ZV(z3.Or(*acc)) if acc else Con(False)
        return Con(False)

    @reg('isinstance')
    def _isinstance(X, args, kw, node):
        return X.spec.isinstance_(X, deref(args[0]), deref(args[1]), node)

    @reg('issubclass')
    def _issubclass(X, args, kw, node):
        return X.spec.issubclass_(X, deref(args[0]), deref(args[1]), node)

    @reg('type')
    def _type(X, args, kw, node):
        v = deref(args[0])
        if isinstance(v, TupV) and v.cls:
            return ClassV(v.cls)
        if isinstance(v, TupV):
            return ClassV('list' if v.is_list else 'tuple')
        if isinstance(v, Con):
            return ClassV(type(v.v).__name__)
        if isinstance(v, ZV) and is_usort(v.t.sort()):
            h = X.spec.type_hooks.get(v.t.sort().name())
            if h:
                return h(X, v, node)
            return ZV(type_of(X, v.t))
        from .exec import ExcV
        if isinstance(v, ExcV):
            return ClassV(v.cls)
        X.unsupported('type(%r)' % (v,), node)

    @reg('hasattr')
    def _hasattr(X, args, kw, node):
        return X.spec.hasattr_(X, deref(args[0]), deref(args[1]), node)

    @reg('getattr')
    def _getattr(X, args, kw, node):
        obj, name = args[0], deref(args[1])
        if isinstance(name, Con):
            from .exec import PyRaise
            if len(args) > 2:
                try:
                    return X.get_attr(obj, name.v, node)
                except PyRaise as pr:
                    if pr.exc.cls == 'AttributeError':
                        return args[2]
                    raise
            return X.get_attr(obj, name.v, node)
        return X.spec.getattr_dynamic(X, deref(obj), name, args[2] if len(args) > 2 else None, node)

    @reg('callable')
    def _callable(X, args, kw, node):
        return X.spec.callable_(X, deref(args[0]), node)

    @reg('next')
    def _next(X, args, kw, node):
        return X.spec.next_(X, deref(args[0]), node)

    @reg('str')
    def _str(X, args, kw, node):
        v = deref(args[0]) if args else Con('')
        if isinstance(v, Con):
            return Con(str(v.v))
        return StrV([v])

    @reg('round')
    def _round(X, args, kw, node):
        X.unsupported('round', node)

    @reg('iter')
    def _iter(X, args, kw, node):
        return args[0]

    for name in ('Exception', 'BaseException', 'ValueError', 'TypeError', 'KeyError',
                 'AttributeError', 'AssertionError', 'NotImplementedError', 'RuntimeError',
                 'StopIteration', 'IndexError', 'NameError', 'ModuleNotFoundError',
                 'ImportError', 'ZeroDivisionError', 'LookupError'):
        b[name] = ClassV(name)
    b['object'] = ClassV('object')
    b['int'] = ClassV('int')
    b['float'] = ClassV('float')
    b['bool'] = ClassV('bool')
    b['True'] = Con(True)
    b['False'] = Con(False)
    b['None'] = NONE
    return b


# ------------------------------------------------------------ lazy iterables

class LazyMap(Val):
    def __init__(self, f, seq):
        self.f, self.seq = f, seq


class LazyFilter(Val):
    def __init__(self, f, seq):
        self.f, self.seq = f, seq


class SymRange(Val):
    def __init__(self, args):
        self.args = args


class Enumerate(Val):
    def __init__(self, seq):
        self.seq = seq


class DictKeys(Val):
    def __init__(self, d):
        self.d = d


class DictValues(Val):
    def __init__(self, d):
        self.d = d


class DictItems(Val):
    def __init__(self, d):
        self.d = d


class SortDomain(Val):
    """A sort used as the domain of a spec quantifier: all(... for e in Ent)."""

    def __init__(self, sort):
        self.sort = sort


class QuantV(Val):
    """Result of a spec-mode comprehension over symbolic domains."""

    def __init__(self, vars_, guard, body, patterns=None):
        self.vars, self.guard, self.body, self.patterns = vars_, guard, body, patterns

    def forall(self):
        f = z3.Implies(self.guard, self.body) if not z3.is_true(self.guard) else self.body
        if not self.vars:
            return f
        if self.patterns:
            return forall(self.vars, f, patterns=self.patterns)
        return forall(self.vars, f)

    def exists(self):
        f = z3.And(self.guard, self.body)
        if not self.vars:
            return f
        return z3.Exists(self.vars, f)


# ------------------------------------------------------------------ sequences

def to_sequence(X, v, node, as_list):
    v = deref(v)
    if isinstance(v, TupV):
        return TupV(v.items, cls=None, is_list=as_list)
    if isinstance(v, Con) and isinstance(v.v, (tuple, list, str, range, dict)):
        return TupV(X.iter_concrete(v, node), is_list=as_list)
    if isinstance(v, ListV):
        return ListV(v.E, v.n, v.ats)
    if isinstance(v, (SetV, DictKeys)):
        s = v if isinstance(v, SetV) else SetV(deref(v.d).K, deref(v.d).dom)
        return set_enumeration(X, s)
    if isinstance(v, DictV):
        return set_enumeration(X, SetV(v.K, v.dom))
    if isinstance(v, DictValues):
        d = deref(v.d)
        keys = set_enumeration(X, SetV(d.K, d.dom))
        return list_map(X, keys, lambda k: d.select(k.t), d.V)
    if isinstance(v, LazyFilter):
        return filter_list(X, v, node)
    if isinstance(v, LazyMap):
        src = to_sequence(X, v.seq, node, as_list)
        if isinstance(src, TupV):
            return TupV([X.call(v.f, [x], {}, node) for x in src.items], is_list=as_list)
        X.unsupported('map over symbolic list', node)
    h = X.spec.sequence_hook(X, v, node)
    if h is not None:
        return h
    X.unsupported('tuple()/list() of %r' % (v,), node)


def set_enumeration(X, s):
    """An arbitrary duplicate-free enumeration of a set: list `ord` and index
    function `idx` with  k in S  <=>  0 <= idx(k) < n and ord[idx(k)] = k."""
    K = s.K
    n = z3.Int(X.fresh_name('enum_n'))
    at = z3.Const(X.fresh_name('enum_at'), z3.ArraySort(z3.IntSort(), K.sort))
    idx = z3.Function(X.fresh_name('enum_idx'), K.sort, z3.IntSort())
    k = z3.Const('k_enum', K.sort)
    i = z3.Int('i_enum')
    X.assume(n >= 0)
    X.assume(forall([k], z3.Implies(s.arr[k], z3.And(0 <= idx(k), idx(k) < n, at[idx(k)] == k)),
                       patterns=[idx(k), s.arr[k]]))
    X.assume(forall([i], z3.Implies(z3.And(0 <= i, i < n),
                                       z3.And(s.arr[at[i]], idx(at[i]) == i)),
                       patterns=[at[i]]))
    lv = ListV(K, n, [at])
    lv.enum_of = s
    lv.enum_idx = idx
    return lv


def list_map(X, lst, f, E):
    """Pointwise image of a symbolic list under a pure function of the item."""
    ats = [z3.Const(X.fresh_name('map_at'), z3.ArraySort(z3.IntSort(), srt))
           for srt in E.leaf_sorts()]
    i = z3.Int('i_map')
    img = E.to_leaves(f(lst.at(i)))
    for a, l in zip(ats, img):
        X.assume(forall([i], z3.Implies(z3.And(0 <= i, i < lst.n), a[i] == l),
                        patterns=[a[i]] + [src[i] for src in lst.ats]))
    return ListV(E, lst.n, ats)


def list_to_set(X, lv, K=None):
    """Set of the elements of a symbolic list (element type adapted to K)."""
    K = K or lv.E
    arr = z3.Const(X.fresh_name('lset'), z3.ArraySort(K.sort, z3.BoolSort()))
    wit = z3.Function(X.fresh_name('lset_wit'), K.sort, z3.IntSort())
    k = z3.Const('k_ls', K.sort)
    i = z3.Int('i_ls')

    def elem(j):
        return K.to_leaves(lv.at(j))[0]
    X.assume(forall([k], z3.Implies(arr[k], z3.And(0 <= wit(k), wit(k) < lv.n,
                                                   elem(wit(k)) == k)),
                    patterns=[arr[k]]))
    X.assume(forall([i], z3.Implies(z3.And(0 <= i, i < lv.n), arr[elem(i)]),
                    patterns=[a[i] for a in lv.ats]))
    return SetV(K, arr)


def filter_list(X, lf, node):
    """list(filter(pred, L)) for a symbolic list L: order-preserving sublist,
    given by a strictly increasing embedding `emb` and its partial inverse."""
    src = deref(lf.seq)
    if not isinstance(src, ListV):
        src = to_sequence(X, src, node, True)
    if not isinstance(src, ListV):
        X.unsupported('filter over %r' % (src,), node)
    E = src.E
    n = z3.Int(X.fresh_name('flt_n'))
    ats = [z3.Const(X.fresh_name('flt_at'), z3.ArraySort(z3.IntSort(), s)) for s in E.leaf_sorts()]
    emb = z3.Function(X.fresh_name('flt_emb'), z3.IntSort(), z3.IntSort())
    inv = z3.Function(X.fresh_name('flt_inv'), z3.IntSort(), z3.IntSort())
    i, j = z3.Ints('i_flt j_flt')

    def pred(item):
        # pure evaluation of the predicate for an arbitrary item - but it is CODE: `==`
        # between user objects keeps its code meaning (user_eq)
        X.spec_mode += 1
        X.code_eq = getattr(X, 'code_eq', 0) + 1
        try:
            return zbool(X.truth(X.call(lf.f, [item], {}, node)))
        finally:
            X.spec_mode -= 1
            X.code_eq -= 1
    X.assume(z3.And(n >= 0, n <= src.n))
    body = [0 <= emb(i), emb(i) < src.n, pred(src.at(emb(i))), inv(emb(i)) == i]
    for a, sa in zip(ats, src.ats):
        body.append(a[i] == sa[emb(i)])
    X.assume(forall([i], z3.Implies(z3.And(0 <= i, i < n), z3.And(*body)),
                       patterns=[emb(i)] + [a[i] for a in ats]))
    X.assume(forall([i, j], z3.Implies(z3.And(0 <= i, i < j, j < n), emb(i) < emb(j)),
                       patterns=[z3.MultiPattern(emb(i), emb(j))]))
    X.assume(forall([j], z3.Implies(z3.And(0 <= j, j < src.n, pred(src.at(j))),
                                       z3.And(0 <= inv(j), inv(j) < n, emb(inv(j)) == j)),
                       patterns=[inv(j)] + [sa[j] for sa in src.ats]))
    out = ListV(E, n, ats)
    X.list_info[ats[0].get_id()] = {'kind': 'filter', 'emb': emb, 'inv': inv, 'src': src}
    X.list_info['last_filter'] = X.list_info[ats[0].get_id()]
    return out


def card(X, v):
    """len() of a set/dict: an integer tied to emptiness only (enough for the
    uses in /repo: `len(x) > 0`, `len(a) < len(b) + len(c)`)."""
    arr = v.arr if isinstance(v, SetV) else v.dom
    K = v.K
    f = z3.Function('card_' + K.sort.name(), z3.ArraySort(K.sort, z3.BoolSort()), z3.IntSort())
    c = f(arr)
    X.assume(c >= 0)
    X.assume((c == 0) == (arr == z3.K(K.sort, z3.BoolVal(False))))
    return c


def list_eq(X, a, b):
    i = z3.Int('i_leq')
    conj = [a.n == b.n]
    for x, y in zip(a.ats, b.ats):
        conj.append(forall([i], z3.Implies(z3.And(0 <= i, i < a.n), x[i] == y[i]),
                              patterns=[x[i], y[i]]))
    return z3.And(*conj)


def dict_eq(X, a, b):
    k = z3.Const('k_deq', a.K.sort)
    conj = [a.dom == b.dom]
    for x, y in zip(a.vals, b.vals):
        conj.append(forall([k], z3.Implies(a.dom[k], x[k] == y[k]), patterns=[x[k], y[k]]))
    return z3.And(*conj)


def list_extend(X, a, b):
    b = deref(b)
    E = a.E
    if isinstance(b, TupV) or (isinstance(b, Con) and isinstance(b.v, (tuple, list))):
        out = a
        for it in X.iter_concrete(b):
            out = ListV(E, out.n + 1, [z3.Store(arr, out.n, l)
                                       for arr, l in zip(out.ats, E.to_leaves(it))])
        return out
    if isinstance(b, ListV):
        ats = [z3.Const(X.fresh_name('ext_at'), z3.ArraySort(z3.IntSort(), s))
               for s in E.leaf_sorts()]
        i = z3.Int('i_ext')
        for na, aa, ba in zip(ats, a.ats, b.ats):
            X.assume(forall([i], na[i] == z3.If(i < a.n, aa[i], ba[i - a.n]),
                               patterns=[na[i]]))
        X.assume(b.n >= 0)
        return ListV(E, a.n + b.n, ats)
    X.unsupported('list extend with %r' % (b,))


def str_concat(X, a, b):
    pa = a.parts if isinstance(a, StrV) else [a.v if isinstance(a, Con) else a]
    pb = b.parts if isinstance(b, StrV) else [b.v if isinstance(b, Con) else b]
    if all(isinstance(p, str) for p in pa + pb):
        return Con(''.join(pa + pb))
    return StrV(pa + pb)


def bitor(X, a, b, node):
    if isinstance(a, Con) and isinstance(b, Con):
        return Con(a.v | b.v)
    h = X.spec.bitor_hook(X, a, b, node)
    if h is not None:
        return h
    X.unsupported('| on %r, %r' % (a, b), node)


def abstract_lt(X, op, a, b, node):
    X.unsupported('ordering comparison on objects', node)


# ------------------------------------------------------------- item access

def norm_index(X, lst_n, idx, node, check=True):
    """Python index (negative allowed) -> array index, IndexError fork."""
    i = X.num(idx, node)
    if X.spec_mode:
        # specifications index lists directly (triggers must stay if-free);
        # a negative literal still counts from the end
        if z3.is_int_value(i) and i.as_long() < 0:
            return z3.simplify(lst_n + i)
        return i
    j = z3.If(i < 0, i + lst_n, i)
    if check and not X.spec_mode:
        if X.branch(z3.Or(j < 0, j >= lst_n)):
            X.raise_('IndexError', 'list index out of range', node=node)
    return z3.simplify(j)


def get_item(X, cont, key, node):
    h = getattr(X.spec, 'chain_getitem', None)
    if h is not None:
        r = h(X, cont, key, node)
        if r is not None:
            return r
    c = deref(cont)
    k = deref(key)
    if isinstance(c, TupV):
        if isinstance(k, Con) and isinstance(k.v, int):
            try:
                return c.items[k.v]
            except IndexError:
                X.raise_('IndexError', node=node)
        if isinstance(k, ZV):
            # symbolic index into a fixed tuple: case split
            n = len(c.items)
            idx = z3.If(k.t < 0, k.t + n, k.t)
            if not X.spec_mode and X.branch(z3.Or(idx < 0, idx >= n)):
                X.raise_('IndexError', node=node)
            out = c.items[n - 1]
            for j in range(n - 2, -1, -1):
                out = ite(idx == j, c.items[j], out)
            return out
        X.raise_('TypeError', 'tuple index', node=node)
    if isinstance(c, Con):
        if isinstance(c.v, dict):
            if isinstance(k, Con):
                if k.v in c.v:
                    x = c.v[k.v]
                    return x if isinstance(x, Val) else Con(x)
                X.raise_('KeyError', k.v, node=node)
            h = X.spec.con_dict_symbolic_key(X, c, k, node)
            if h is not None:
                return h
            X.unsupported('concrete dict with symbolic key', node)
        if isinstance(k, Con):
            try:
                x = c.v[k.v]
                return x if isinstance(x, Val) else Con(x)
            except (IndexError, KeyError, TypeError) as e:
                X.raise_(type(e).__name__, node=node)
        X.unsupported('index %r of %r' % (k, c), node)
    if isinstance(c, ListV):
        j = norm_index(X, c.n, k, node)
        return c.at(j)
    if isinstance(c, DictV):
        kt = coerce_term(k, c.K.sort)
        if not X.spec_mode and X.branch(z3.Not(c.dom[kt])):
            X.raise_('KeyError', node=node)
        v = c.select(kt)
        if isinstance(cont, Loc) and isinstance(c.V, (TSet, TDict, TList)):
            def get(cont=cont, kt=kt):
                return deref(cont).select(kt)

            def set_(nv, cont=cont, kt=kt):
                cont.set(deref(cont).store(kt, nv))
            return Loc(get, set_, c.V, '%s[%s]' % (cont.desc, kt))
        return v
    if isinstance(c, ZV) and is_usort(c.t.sort()):
        return X.spec.getitem_object(X, c, k, node)
    if isinstance(c, ZV) and c.t.sort().kind() == z3.Z3_ARRAY_SORT:
        r = c.t[coerce_term(k, c.t.sort().domain())]
        return ZV(r)
    h = X.spec.getitem_hook(X, c, k, node)
    if h is not None:
        return h
    X.unsupported('subscript of %r' % (c,), node)


def set_item(X, cont, key, v, node):
    h = getattr(X.spec, 'chain_setitem', None)
    if h is not None and h(X, cont, key, v, node):
        return
    c = deref(cont)
    k = deref(key)
    if isinstance(c, TupV) and c.is_list and isinstance(k, Con):
        items = list(c.items)
        try:
            items[k.v] = v
        except IndexError:
            X.raise_('IndexError', node=node)
        _write_back(X, cont, TupV(items, is_list=True), node)
        return
    if isinstance(c, Con) and isinstance(c.v, dict) and isinstance(k, Con):
        d = dict(c.v)
        d[k.v] = v
        _write_back(X, cont, Con(d), node)
        return
    if isinstance(c, DictV):
        kt = coerce_term(k, c.K.sort)
        if isinstance(v, Loc) and isinstance(c.V, (TSet, TDict, TList)):
            X.unsupported('aliasing store of a heap container', node)
        _write_back(X, cont, X.typed_store('dict value', lambda: c.store(kt, X.adapt(v, c.V))), node)
        return
    if isinstance(c, ListV):
        j = norm_index(X, c.n, k, node)
        _write_back(X, cont, ListV(c.E, c.n, [z3.Store(a, j, l) for a, l in
                                              zip(c.ats, c.E.to_leaves(v))]), node)
        return
    if isinstance(c, ZV) and is_usort(c.t.sort()):
        return X.spec.setitem_object(X, c, k, v, node)
    if isinstance(c, Con) and isinstance(c.v, dict):
        h = X.spec.con_dict_store(X, cont, c, k, v, node)
        if h:
            return
    X.unsupported('item assignment on %r' % (c,), node)


def _write_back(X, cont, new, node):
    if isinstance(cont, Loc):
        cont.set(new)
    else:
        X.unsupported('mutation of a temporary container', node)


def del_item(X, cont, key, node):
    c = deref(cont)
    k = deref(key)
    if isinstance(c, DictV):
        kt = coerce_term(k, c.K.sort)
        if X.branch(z3.Not(c.dom[kt])):
            X.raise_('KeyError', node=node)
        _write_back(X, cont, c.remove(kt), node)
        return
    if isinstance(c, Con) and isinstance(c.v, dict) and isinstance(k, Con):
        if k.v not in c.v:
            X.raise_('KeyError', node=node)
        d = dict(c.v)
        del d[k.v]
        _write_back(X, cont, Con(d), node)
        return
    X.unsupported('del item on %r' % (c,), node)


def slice_bounds(X, sl, fr, n):
    def e(x):
        if x is None:
            return None
        v = deref(X.ev(x, fr))
        if isinstance(v, Con) and (v.v is None or isinstance(v.v, int)):
            return v.v
        return v
    return e(sl.lower), e(sl.upper), e(sl.step)


def get_slice(X, cont, sl, fr, node):
    c = deref(cont)
    lo, hi, st = slice_bounds(X, sl, fr, None)
    if isinstance(c, TupV) and all(x is None or isinstance(x, int) for x in (lo, hi, st)):
        return TupV(c.items[slice(lo, hi, st)], is_list=c.is_list)
    if isinstance(c, Con) and all(x is None or isinstance(x, int) for x in (lo, hi, st)):
        return Con(c.v[slice(lo, hi, st)])
    if isinstance(c, ListV) and st is None:
        # a[lo:hi] with literal/None bounds: shifted view
        lo_t = z3.IntVal(0) if lo is None else (z3.IntVal(lo) if lo >= 0 else c.n + lo)
        hi_t = c.n if hi is None else (z3.IntVal(hi) if hi >= 0 else c.n + hi)
        lo_t = z3.If(lo_t < 0, 0, z3.If(lo_t > c.n, c.n, lo_t))
        hi_t = z3.If(hi_t < 0, 0, z3.If(hi_t > c.n, c.n, hi_t))
        n = z3.If(hi_t > lo_t, hi_t - lo_t, 0)
        ats = [z3.Const(X.fresh_name('slc_at'), a.sort()) for a in c.ats]
        i = z3.Int('i_slc')
        for na, a in zip(ats, c.ats):
            X.assume(forall([i], na[i] == a[i + lo_t], patterns=[na[i]]))
        return ListV(c.E, z3.simplify(n), ats)
    X.unsupported('slice of %r' % (c,), node)


def set_slice(X, cont, sl, v, fr, node):
    lo, hi, st = slice_bounds(X, sl, fr, None)
    c = deref(cont)
    if lo is None and hi is None and st is None:
        # x[:] = iterable  -> replace contents in place
        new = to_sequence(X, v, node, True)
        if isinstance(c, ListV) and isinstance(new, TupV):
            new = list_from_items(c.E, new.items)
        _write_back(X, cont, new, node)
        return
    X.unsupported('slice assignment', node)


def contains(X, cont, item, node):
    h = getattr(X.spec, 'chain_contains', None)
    if h is not None:
        r = h(X, cont, item, node)
        if r is not None:
            return r
    c = deref(cont)
    it = deref(item)
    if isinstance(c, Con):
        if isinstance(c.v, dict):
            if isinstance(it, Con):
                return it.v in c.v
            r = X.spec.con_dict_contains(X, c, it, node)
            if r is not None:
                return r
            X.unsupported('membership of symbolic key in concrete dict', node)
        if isinstance(it, Con):
            try:
                return it.v in c.v
            except TypeError:
                X.raise_('TypeError', node=node)
        if isinstance(c.v, (tuple, list, set, frozenset)):
            return z3.Or(*[zbool(X.eq(it, Con(x))) for x in c.v]) if c.v else False
        if isinstance(c.v, str):
            r = X.spec.str_contains(X, c, it, node)
            if r is not None:
                return r
        X.unsupported('%r in %r' % (it, c), node)
    if isinstance(c, TupV):
        cs = [zbool(X.eq(it, x)) for x in c.items]
        return z3.Or(*cs) if cs else False
    if isinstance(c, SetV):
        return c.arr[coerce_term(it, c.K.sort)]
    if isinstance(c, DictV):
        return c.dom[coerce_term(it, c.K.sort)]
    if isinstance(c, DictKeys):
        d = deref(c.d)
        return d.dom[coerce_term(it, d.K.sort)]
    if isinstance(c, ListV):
        i = z3.Int(X.fresh_name('i_in'))
        eqs = [a[i] == l for a, l in zip(c.ats, c.E.to_leaves(it))]
        if X.spec_mode:
            return z3.Exists([i], z3.And(0 <= i, i < c.n, *eqs))
        # code: introduce the witness / its absence
        j = z3.Int('j_in')
        neq = [a[j] == l for a, l in zip(c.ats, c.E.to_leaves(it))]
        b = z3.Bool(X.fresh_name('in_list'))
        X.assume(z3.Implies(b, z3.And(0 <= i, i < c.n, *eqs)))
        X.assume(z3.Implies(z3.Not(b), forall([j], z3.Implies(z3.And(0 <= j, j < c.n),
                                                                 z3.Not(z3.And(*neq))),
                                                 patterns=[c.ats[0][j]])))
        return b
    r = X.spec.contains_hook(X, c, it, node)
    if r is not None:
        return r
    X.unsupported('%r in %r' % (it, c), node)


# ------------------------------------------------------- container methods

def container_attr(X, obj, attr, node):
    from .exec import BoundMethod, Builtin
    h0 = X.spec.container_attr_hook(X, obj, None, attr, node)
    if h0 is not None:
        return h0
    c = deref(obj)
    if isinstance(c, Con) and isinstance(c.v, str):
        return Builtin('str.' + attr, lambda X, a, k, n, c=c: str_method(X, c, attr, a, k, n))
    if isinstance(c, ZV) and c.t.sort() == z3.StringSort():
        return Builtin('str.' + attr, lambda X, a, k, n, c=c: X.spec.symstr_method(X, c, attr, a, k, n))
    table = None
    if isinstance(c, SetV) or (isinstance(c, Con) and isinstance(c.v, (set, frozenset))):
        table = SET_METHODS
    elif isinstance(c, DictV) or (isinstance(c, Con) and isinstance(c.v, dict)):
        table = DICT_METHODS
    elif isinstance(c, ListV) or (isinstance(c, TupV)):
        table = LIST_METHODS
    elif isinstance(c, Con) and isinstance(c.v, (tuple, list)):
        table = LIST_METHODS
    if table is not None and attr in table:
        fn = table[attr]
        return Builtin(attr, lambda X, a, k, n, obj=obj: fn(X, obj, a, k, n))
    h = X.spec.container_attr_hook(X, obj, c, attr, node)
    if h is not None:
        return h
    X.unsupported('attribute %s of %r' % (attr, c), node)


def str_method(X, c, attr, args, kw, node):
    vals = [deref(a) for a in args]
    if all(isinstance(v, Con) for v in vals):
        try:
            r = getattr(c.v, attr)(*[v.v for v in vals])
        except (ValueError, TypeError, IndexError) as e:
            X.raise_(type(e).__name__, node=node)
        if isinstance(r, list):
            return TupV([Con(x) for x in r], is_list=True)
        return Con(r)
    if attr == 'join':
        return X.spec.str_join(X, c, vals[0], node)
    X.unsupported('str.%s with symbolic arguments' % attr, node)


def _set_of(X, obj, Khint=None):
    c = deref(obj)
    if isinstance(c, Con) and isinstance(c.v, (set, frozenset)) and not c.v:
        if Khint is None:
            return None
        return TSet(Khint).empty()
    return c


def set_add(X, obj, args, kw, node):
    c = deref(obj)
    it = deref(args[0])
    if isinstance(c, Con):
        K = type_of_val(it)
        c = TSet(K).empty()
    kt = X.typed_store('set element', lambda: coerce_term(it, c.K.sort))
    _write_back(X, obj, SetV(c.K, z3.Store(c.arr, kt, True)), node)
    return NONE


def set_discard(X, obj, args, kw, node):
    c = deref(obj)
    if isinstance(c, Con):
        return NONE
    _write_back(X, obj, SetV(c.K, z3.Store(c.arr, coerce_term(args[0], c.K.sort), False)), node)
    return NONE


def set_remove(X, obj, args, kw, node):
    c = deref(obj)
    if isinstance(c, Con):
        X.raise_('KeyError', node=node)
    kt = coerce_term(args[0], c.K.sort)
    if X.branch(z3.Not(c.arr[kt])):
        X.raise_('KeyError', node=node)
    _write_back(X, obj, SetV(c.K, z3.Store(c.arr, kt, False)), node)
    return NONE


def set_clear(X, obj, args, kw, node):
    c = deref(obj)
    if isinstance(c, Con):
        return NONE
    _write_back(X, obj, TSet(c.K).empty(), node)
    return NONE


def set_pop(X, obj, args, kw, node):
    """set.pop(): removes and returns an arbitrary element; KeyError if empty."""
    c = deref(obj)
    if isinstance(c, Con):
        X.raise_('KeyError', 'pop from an empty set', node=node)
    if X.branch(c.arr == z3.K(c.K.sort, z3.BoolVal(False))):
        X.raise_('KeyError', 'pop from an empty set', node=node)
    k = X.fresh(c.K, 'popped')
    X.assume(c.arr[k.t])
    _write_back(X, obj, SetV(c.K, z3.Store(c.arr, k.t, False)), node)
    return k


SET_METHODS = {'pop': set_pop, 'add': set_add, 'discard': set_discard, 'remove': set_remove,
               'clear': set_clear}


def dict_get(X, obj, args, kw, node):
    c = deref(obj)
    default = args[1] if len(args) > 1 else NONE
    k = deref(args[0])
    if isinstance(c, Con):
        if isinstance(k, Con):
            x = c.v.get(k.v, default)
            return x if isinstance(x, Val) else Con(x)
        h = X.spec.con_dict_get(X, c, k, default, node)
        if h is not None:
            return h
        X.unsupported('concrete dict .get with symbolic key', node)
    kt = coerce_term(k, c.K.sort)
    d = deref(default)
    zs = getattr(X.spec, 'zero_sentinels', {})
    if isinstance(d, Con) and isinstance(d.v, int) and not isinstance(d.v, bool) and d.v == 0 \
            and isinstance(c.V, TScalar) and c.V.sort.name() in zs:
        d = ZV(zs[c.V.sort.name()])     # `0` used as a sentinel next to object values
    if isinstance(d, Con) and d.v == {} and isinstance(c.V, TDict):
        d = c.V.empty()
    if isinstance(d, TupV) and not d.items and isinstance(c.V, TSet):
        d = c.V.empty()
    if isinstance(d, TupV) and not d.items and isinstance(c.V, TList):
        d = c.V.empty()
    return ite(c.dom[kt], c.select(kt), d)


def dict_setdefault(X, obj, args, kw, node):
    c = deref(obj)
    k = deref(args[0])
    default = args[1] if len(args) > 1 else NONE
    if isinstance(c, Con):
        X.unsupported('setdefault on concrete dict', node)
    kt = coerce_term(k, c.K.sort)
    dv = deref(default)
    if isinstance(dv, Con) and isinstance(dv.v, (set, frozenset)) and not dv.v and isinstance(c.V, TSet):
        dv = c.V.empty()
    if X.branch(c.dom[kt]):
        pass
    else:
        _write_back(X, obj, c.store(kt, dv), node)
    if isinstance(c.V, (TSet, TDict, TList)) and isinstance(obj, Loc):
        def get(obj=obj, kt=kt):
            return deref(obj).select(kt)

        def set_(nv, obj=obj, kt=kt):
            obj.set(deref(obj).store(kt, nv))
        return Loc(get, set_, c.V, '%s[%s]' % (obj.desc, kt))
    return deref(obj).select(kt)


def dict_pop(X, obj, args, kw, node):
    c = deref(obj)
    k = deref(args[0])
    if isinstance(c, Con):
        X.unsupported('pop on concrete dict', node)
    kt = coerce_term(k, c.K.sort)
    if X.branch(c.dom[kt]):
        v = c.select(kt)
        _write_back(X, obj, c.remove(kt), node)
        return v
    if len(args) > 1:
        return args[1]
    X.raise_('KeyError', node=node)


def dict_clear(X, obj, args, kw, node):
    c = deref(obj)
    if isinstance(c, Con):
        _write_back(X, obj, Con({}), node)
        return NONE
    _write_back(X, obj, DictV(c.K, c.V, z3.K(c.K.sort, z3.BoolVal(False)), c.vals), node)
    return NONE


def dict_keys(X, obj, args, kw, node):
    c = deref(obj)
    if isinstance(c, Con):
        return TupV([Con(k) for k in c.v], is_list=True)
    return DictKeys(obj)


def dict_values(X, obj, args, kw, node):
    c = deref(obj)
    if isinstance(c, Con):
        return TupV([x if isinstance(x, Val) else Con(x) for x in c.v.values()], is_list=True)
    return DictValues(obj)


def dict_items(X, obj, args, kw, node):
    c = deref(obj)
    if isinstance(c, Con):
        return TupV([TupV([Con(k), x if isinstance(x, Val) else Con(x)])
                     for k, x in c.v.items()], is_list=True)
    return DictItems(obj)


def dict_update(X, obj, args, kw, node):
    c = deref(obj)
    o = deref(args[0])
    if isinstance(c, Con) and isinstance(o, Con):
        d = dict(c.v)
        d.update(o.v)
        _write_back(X, obj, Con(d), node)
        return NONE
    h = X.spec.dict_update_hook(X, obj, c, o, node)
    if h:
        return NONE
    X.unsupported('dict.update', node)


DICT_METHODS = {'get': dict_get, 'setdefault': dict_setdefault, 'pop': dict_pop,
                'clear': dict_clear, 'keys': dict_keys, 'values': dict_values,
                'items': dict_items, 'update': dict_update}


def _as_listv(X, c, node, E=None):
    if isinstance(c, ListV):
        return c
    if isinstance(c, TupV):
        if E is None:
            if not c.items:
                return None
            E = type_of_val(c.items[0])
        return list_from_items(E, c.items)
    return None


def list_append(X, obj, args, kw, node):
    c = deref(obj)
    if isinstance(c, TupV) and c.is_list:
        _write_back(X, obj, TupV(c.items + [args[0]], is_list=True), node)
        return NONE
    if isinstance(c, ListV):
        lv = X.typed_store('list element', lambda: c.E.to_leaves(args[0]))
        _write_back(X, obj, ListV(c.E, c.n + 1, [z3.Store(a, c.n, l) for a, l in
                                                 zip(c.ats, lv)]), node)
        return NONE
    X.unsupported('append on %r' % (c,), node)


def list_pop(X, obj, args, kw, node):
    c = deref(obj)
    if isinstance(c, TupV) and c.is_list:
        idx = deref(args[0]).v if args else -1
        items = list(c.items)
        try:
            v = items.pop(idx)
        except IndexError:
            X.raise_('IndexError', 'pop from empty list', node=node)
        _write_back(X, obj, TupV(items, is_list=True), node)
        return v
    if isinstance(c, ListV):
        if args:
            k = deref(args[0])
            if isinstance(k, Con) and k.v == 0:
                return list_popleft(X, obj, [], kw, node)
            X.unsupported('list.pop(i)', node)
        if X.branch(c.n <= 0):
            X.raise_('IndexError', 'pop from empty list', node=node)
        v = c.at(c.n - 1)
        _write_back(X, obj, ListV(c.E, c.n - 1, c.ats), node)
        return v
    X.unsupported('pop on %r' % (c,), node)


def list_popleft(X, obj, args, kw, node):
    c = deref(obj)
    if not isinstance(c, ListV):
        X.unsupported('popleft on %r' % (c,), node)
    if X.branch(c.n <= 0):
        X.raise_('IndexError', 'pop from an empty deque', node=node)
    v = c.at(z3.IntVal(0))
    ats = [z3.Const(X.fresh_name('popl_at'), a.sort()) for a in c.ats]
    i = z3.Int('i_popl')
    for na, a in zip(ats, c.ats):
        X.assume(forall([i], na[i] == a[i + 1], patterns=[na[i]]))
        # the same fact seen from the old list (gives E-matching the shifted terms)
        X.assume(forall([i], z3.Implies(i >= 1, a[i] == na[i - 1]), patterns=[a[i]]))
    _write_back(X, obj, ListV(c.E, c.n - 1, ats), node)
    return v


def list_insert(X, obj, args, kw, node):
    c = deref(obj)
    if isinstance(c, TupV) and c.is_list and isinstance(deref(args[0]), Con):
        items = list(c.items)
        items.insert(deref(args[0]).v, args[1])
        _write_back(X, obj, TupV(items, is_list=True), node)
        return NONE
    if isinstance(c, ListV):
        p = X.num(args[0], node)
        p = z3.If(p < 0, z3.If(p + c.n < 0, 0, p + c.n), z3.If(p > c.n, c.n, p))
        lv = c.E.to_leaves(args[1])
        ats = [z3.Const(X.fresh_name('ins_at'), a.sort()) for a in c.ats]
        i = z3.Int('i_ins')
        for na, a, l in zip(ats, c.ats, lv):
            X.assume(forall([i], na[i] == z3.If(i < p, a[i], z3.If(i == p, l, a[i - 1])),
                               patterns=[na[i]]))
        _write_back(X, obj, ListV(c.E, c.n + 1, ats), node)
        return NONE
    X.unsupported('insert on %r' % (c,), node)


def list_clear(X, obj, args, kw, node):
    c = deref(obj)
    if isinstance(c, TupV):
        _write_back(X, obj, TupV([], is_list=True), node)
    else:
        _write_back(X, obj, ListV(c.E, z3.IntVal(0), c.ats), node)
    return NONE


def list_extend_m(X, obj, args, kw, node):
    c = deref(obj)
    if isinstance(c, TupV) and X.has_concrete_len(args[0]):
        _write_back(X, obj, TupV(c.items + X.iter_concrete(args[0], node), is_list=True), node)
        return NONE
    lv = _as_listv(X, c, node)
    _write_back(X, obj, list_extend(X, lv, args[0]), node)
    return NONE


def list_rotate(X, obj, args, kw, node):
    """deque.rotate(-1): first element goes to the end."""
    c = deref(obj)
    k = deref(args[0])
    if not (isinstance(c, ListV) and isinstance(k, Con) and k.v in (-1, 1)):
        X.unsupported('rotate', node)
    ats = [z3.Const(X.fresh_name('rot_at'), a.sort()) for a in c.ats]
    i = z3.Int('i_rot')
    for na, a in zip(ats, c.ats):
        if k.v == -1:
            X.assume(forall([i], na[i] == z3.If(i == c.n - 1, a[0], a[i + 1]),
                               patterns=[na[i]]))
            X.assume(forall([i], a[i] == z3.If(i == 0, na[c.n - 1], na[i - 1]), patterns=[a[i]]))
        else:
            X.assume(forall([i], na[i] == z3.If(i == 0, a[c.n - 1], a[i - 1]),
                               patterns=[na[i]]))
    # rotating an empty deque is a no-op; n unchanged
    _write_back(X, obj, ListV(c.E, c.n, ats), node)
    return NONE


def list_index(X, obj, args, kw, node):
    c = deref(obj)
    if isinstance(c, (TupV, Con)):
        items = X.iter_concrete(c, node)
        it = deref(args[0])
        for i, x in enumerate(items):
            r = X.eq(x, it)
            if isinstance(r, bool):
                if r:
                    return Con(i)
            else:
                X.unsupported('symbolic .index', node)
        X.raise_('ValueError', 'not in list', node=node)
    X.unsupported('index on %r' % (c,), node)


LIST_METHODS = {'append': list_append, 'pop': list_pop, 'popleft': list_popleft,
                'insert': list_insert, 'clear': list_clear, 'extend': list_extend_m,
                'rotate': list_rotate, 'index': list_index}


# ----------------------------------------------------------------- externals

def _fn(name, *sorts):
    return z3.Function(name, *sorts)


R = z3.RealSort()
SQRT = _fn('sqrt', R, R)
COS = _fn('cos', R, R)
SIN = _fn('sin', R, R)
ATAN2 = _fn('atan2', R, R, R)
TAN = _fn('tan', R, R)
PI = z3.Real('pi')


def _real(X, v, node):
    return coerce_term(ZV(X.num(v, node)), R)


def m_sqrt(X, args, kw, node):
    a = deref(args[0])
    if isinstance(a, Con):
        import math
        try:
            r = math.sqrt(a.v)
        except ValueError:
            X.raise_('ValueError', 'math domain error', node=node)
        if r == int(r):
            return Con(int(r))
    x = _real(X, a, node)
    if not X.spec_mode and X.branch(x < 0):
        X.raise_('ValueError', 'math domain error', node=node)
    r = SQRT(x)
    X.assume(z3.Implies(x >= 0, z3.And(r >= 0, r * r == x)))
    X.assumptions_used.add('sqrt axiomatised over the reals: sqrt(x) >= 0 and sqrt(x)^2 = x for x >= 0')
    return ZV(r)


def _trig_facts(X, a):
    X.assume(COS(a) * COS(a) + SIN(a) * SIN(a) == 1)
    X.assumptions_used.add('cos/sin axiomatised over the reals: cos^2+sin^2=1, angle addition')
    if z3.is_add(a) and a.num_args() == 2:
        p, q = a.arg(0), a.arg(1)
        X.assume(COS(p) * COS(p) + SIN(p) * SIN(p) == 1)
        X.assume(COS(q) * COS(q) + SIN(q) * SIN(q) == 1)
        X.assume(COS(a) == COS(p) * COS(q) - SIN(p) * SIN(q))
        X.assume(SIN(a) == SIN(p) * COS(q) + COS(p) * SIN(q))


def m_cos(X, args, kw, node):
    a = _real(X, args[0], node)
    _trig_facts(X, a)
    return ZV(COS(a))


def m_sin(X, args, kw, node):
    a = _real(X, args[0], node)
    _trig_facts(X, a)
    return ZV(SIN(a))


def m_atan2(X, args, kw, node):
    y, x = _real(X, args[0], node), _real(X, args[1], node)
    h = ATAN2(y, x)
    r = SQRT(x * x + y * y)
    X.assume(z3.And(r >= 0, r * r == x * x + y * y))
    X.assume(COS(h) * COS(h) + SIN(h) * SIN(h) == 1)
    X.assume(r * COS(h) == x)
    X.assume(r * SIN(h) == y)
    X.assumptions_used.add('atan2 axiomatised over the reals: |v|cos(atan2(y,x)) = x, |v|sin(atan2(y,x)) = y')
    return ZV(h)


def m_radians(X, args, kw, node):
    return ZV(_real(X, args[0], node) * PI / 180)


def m_tan(X, args, kw, node):
    return ZV(TAN(_real(X, args[0], node)))


def op_mul(X, args, kw, node):
    return X.binop(ast.Mult(), args[0], args[1], node)


def warn(X, args, kw, node):
    X.events.append(('warn', args))
    return NONE


def chainmap_new(X, args, kw, node):
    return TupV([a for a in args] or [Con({})], is_list=True)


def m_fmod(X, args, kw, node):
    """math.fmod(x, y) for y > 0 over the reals: the remainder has the sign of x, |r| < y and
    x - r is an integer multiple of y."""
    x, y = X.num(args[0]), X.num(args[1])
    r = z3.Real(X.fresh_name('fmod'))
    q = z3.Int(X.fresh_name('fmod_q'))
    X.assume(z3.Implies(y > 0, z3.And(x == z3.ToReal(q) * y + r, z3.If(x >= 0, z3.And(0 <= r, r < y),
                                                                        z3.And(-y < r, r <= 0)))))
    return ZV(r)


EXTERNALS = {
    'math.fmod': m_fmod,
    'collections.ChainMap': chainmap_new,
    'math.sqrt': m_sqrt, 'math.cos': m_cos, 'math.sin': m_sin, 'math.atan2': m_atan2,
    'math.radians': m_radians, 'math.tan': m_tan, 'operator.mul': op_mul,
    'warnings.warn': warn,
}


def noop(X, args, kw, node):
    return NONE


def external(X, dotted):
    from .exec import Builtin
    if dotted in EXTERNALS:
        return Builtin(dotted, EXTERNALS[dotted])
    # logging / tracing calls have no effect on the verified state
    if dotted.split('.')[0] == 'logging' and dotted.split('.')[-1] in (
            'debug', 'info', 'warning', 'error', 'exception', 'critical', 'log'):
        return Builtin(dotted, noop)
    if dotted == 'math.pi':
        return ZV(PI)
    h = X.spec.externals.get(dotted)
    if h is not None:
        return h(X) if not isinstance(h, Val) else h
    return None


def super_builtin(X, sv, attr, node):
    from .exec import Builtin, ClassV
    if attr == '__new__':
        def new(X, args, kw, node):
            cls = args[0]
            if len(args) > 1:
                items = X.iter_concrete(args[1], node)
            else:
                items = []
            return TupV(items, cls=cls.qual)
        return Builtin('tuple.__new__', new)
    if attr == '__init__':
        return Builtin('object.__init__', lambda X, a, k, n: NONE)
    X.unsupported('super().%s' % attr, node)


def class_builtin_attr(X, cv, attr, node):
    return X.spec.class_builtin_attr(X, cv, attr, node)


def dict_comp(X, node, fr):
    from .exec import Frame
    sub = Frame(fr.module, parent=fr, cls=fr.cls)
    sub.spec = fr.spec
    if len(node.generators) != 1:
        X.unsupported('nested dict comprehension', node)
    g = node.generators[0]
    it = X.ev(g.iter, sub)
    if X.has_concrete_len(it):
        d = {}
        for x in X.iter_concrete(it, g.iter):
            X.assign(g.target, x, sub)
            if all(X.test(X.ev(c, sub)) for c in g.ifs):
                k = deref(X.ev(node.key, sub))
                if not isinstance(k, Con):
                    X.unsupported('dict comprehension with symbolic key', node)
                d[k.v] = X.ev(node.value, sub)
        return Con(d)
    h = X.spec.dict_comp_hook(X, node, fr, it)
    if h is not None:
        return h
    X.unsupported('dict comprehension over symbolic iterable', node)


def symbolic_comprehension(X, node, fr, kind):
    """Comprehension over a symbolic domain.  In spec mode it denotes a
    quantifier (consumed by all()/any()); in code it is the filter/map list
    abstraction over a collection the element expressions do not modify."""
    from .exec import Frame
    if fr.spec or X.spec_mode:
        sub = Frame(fr.module, parent=fr, cls=fr.cls)
        sub.spec = True
        vars_, guards = [], []
        for g in node.generators:
            it = deref(X.ev(g.iter, sub))
            from .exec import ClassV as _ClassV
            if isinstance(it, _ClassV) and it.qual in X.spec.class_by_qual:
                # a repo class named in a spec quantifier: the sort of its instances
                it = SortDomain(X.spec.class_by_qual[it.qual].sort)
            if isinstance(it, SortDomain):
                v = z3.Const(g.target.id, it.sort)
                vars_.append(v)
                sub.vars[g.target.id] = ZV(v)
            elif isinstance(it, SymRange) or (isinstance(it, Con) and isinstance(it.v, range)):
                if isinstance(it, Con):
                    lo, hi = z3.IntVal(it.v.start), z3.IntVal(it.v.stop)
                else:
                    a = [X.num(x) for x in it.args]
                    lo, hi = (z3.IntVal(0), a[0]) if len(a) == 1 else (a[0], a[1])
                v = z3.Int(g.target.id)
                vars_.append(v)
                sub.vars[g.target.id] = ZV(v)
                guards.append(z3.And(lo <= v, v < hi))
            elif isinstance(it, SetV):
                v = z3.Const(g.target.id, it.K.sort)
                vars_.append(v)
                sub.vars[g.target.id] = ZV(v)
                guards.append(it.arr[v])
            elif isinstance(it, DictV):
                v = z3.Const(g.target.id, it.K.sort)
                vars_.append(v)
                sub.vars[g.target.id] = ZV(v)
                guards.append(it.dom[v])
            elif isinstance(it, ListV):
                # for x in L  ==  for i in range(len L), x = L[i]
                iv = z3.Int('i_' + g.target.id)
                vars_.append(iv)
                sub.vars[g.target.id] = it.at(iv)
                guards.append(z3.And(0 <= iv, iv < it.n))
            elif X.has_concrete_len(it):
                # mixed: concrete iterable inside a symbolic comprehension
                X.unsupported('concrete generator inside symbolic comprehension', node)
            else:
                X.unsupported('quantifier domain %r' % (it,), node)
            for c in g.ifs:
                guards.append(zbool(X.truth(X.ev(c, sub))))
        X.spec_mode += 1
        try:
            body = zbool(X.truth(X.ev(node.elt, sub)))
        finally:
            X.spec_mode -= 1
        return QuantV(vars_, z3.And(*guards) if guards else z3.BoolVal(True), body)
    return X.spec.code_comprehension(X, node, fr, kind)


# ------------------------------------------------------------ list positions

_idxof = {}


def idxof(lst, x_leaves):
    """Some position of an element in a list, as a function of the list (element
    array, length) and the element: idxof(a, n, x).  Axiom (background): if x occurs
    in a[0..n) then a[idxof(a, n, x)] = x and 0 <= idxof(a, n, x) < n."""
    a = lst.ats[0]
    key = a.sort().sexpr()
    if key not in _idxof:
        _idxof[key] = z3.Function('idxof_%d' % len(_idxof), a.sort(), z3.IntSort(),
                                  a.sort().range(), z3.IntSort())
    return _idxof[key](a, lst.n, x_leaves[0])


def idxof_axioms(formulas):
    from .vc import uses
    ax = []
    for key, f in _idxof.items():
        if not uses(formulas, {f.name()}):
            continue
        a = z3.Const('ia', f.domain(0))
        n, i = z3.Ints('in_ ii')
        x = z3.Const('ix_', f.domain(2))
        ax.append(z3.ForAll([a, n, x, i],
                            z3.Implies(z3.And(0 <= i, i < n, a[i] == x),
                                       z3.And(0 <= f(a, n, x), f(a, n, x) < n, a[f(a, n, x)] == x)),
                            patterns=[z3.MultiPattern(a[i], f(a, n, x))]))
    return ax
