"""./check <ID> [--tier quick|thorough] [--replay PATH]"""
import argparse
import hashlib
import importlib
import json
import os
import re
import subprocess
import sys
import time

VERIF = os.path.dirname(os.path.dirname(os.path.abspath(__file__)))
sys.path.insert(0, VERIF)

from pyvc import driver  # noqa: E402

NATIVE_PY = os.environ.get('VERIF_NATIVE_PY', '/venv/bin/python')
REPO = os.environ.get('VERIF_REPO', '/repo')


def load_json(path, default):
    try:
        with open(path) as f:
            return json.load(f)
    except FileNotFoundError:
        return default


def native(module, request, timeout=120):
    """Run a native replay/search module under the interpreter and tree the
    test-suite uses.  Always under a wall-clock timeout (see memory notes)."""
    env = dict(os.environ)
    env['PYTHONPATH'] = REPO + os.pathsep + VERIF
    env.pop('PYTHONHOME', None)
    try:
        p = subprocess.run([NATIVE_PY, '-m', 'replay.' + module], input=json.dumps(request),
                           capture_output=True, text=True, timeout=timeout, cwd=VERIF, env=env)
    except subprocess.TimeoutExpired:
        return {'status': 'timeout', 'detail': 'native replay exceeded %ds' % timeout}
    if p.returncode != 0:
        return {'status': 'error', 'detail': (p.stderr or p.stdout)[-2000:]}
    try:
        return json.loads(p.stdout.strip().split('\n')[-1])
    except Exception:
        return {'status': 'error', 'detail': 'unparseable replay output: ' + p.stdout[-1000:]}


def sanitize(name):
    return re.sub(r'[^A-Za-z0-9_.-]+', '_', name)[:120]


def write_replay(pid, ob, outcome):
    d = os.path.join(VERIF, 'replays', pid)
    os.makedirs(d, exist_ok=True)
    path = os.path.join(d, sanitize(ob['name']) + '.json')
    rec = {'property': pid, 'obligation': ob['name'], 'contract': ob.get('contract'),
           'kind': ob['kind'], 'role': ob['role'], 'solver_result': ob['result'],
           'solver_reason': ob.get('reason', ''), 'solver_model': ob.get('model'),
           'witness': ob.get('witness'), 'line': ob.get('line'), 'path': ob.get('path'),
           'smt2_head': ob.get('smt2_head'), 'native': outcome,
           'replay_cmd': './check %s --replay %s' % (pid, os.path.relpath(path, VERIF))}
    with open(path, 'w') as f:
        json.dump(rec, f, indent=1, default=str)
    return os.path.relpath(path, VERIF)


def finding_matches(f, pid, ob, outcome):
    if f.get('property') != pid or f.get('status', 'open') != 'open':
        return False
    names = [f.get('obligation')] + list(f.get('also', []))
    base = re.sub(r'/\d+$', '', ob['name'])
    if not any(n in (ob['name'], base, ob['name'].split('#')[0]) for n in names):
        return False
    sig = f.get('witness_signature')
    if sig is None:
        return True
    got = (outcome or {}).get('signature')
    return got == sig


def main(argv=None):
    ap = argparse.ArgumentParser()
    ap.add_argument('pid')
    ap.add_argument('--tier', default=os.environ.get('VERIF_TIER', 'quick'))
    ap.add_argument('--replay')
    ap.add_argument('--only', help='substring filter on contract keys (development)')
    ap.add_argument('--verbose', '-v', action='store_true')
    ap.add_argument('--no-evidence', action='store_true')
    args = ap.parse_args(argv)
    pid = args.pid
    tier = args.tier if args.tier in ('quick', 'thorough') else 'quick'
    seed = int(os.environ.get('VERIF_SEED', '0') or 0)
    t0 = time.time()
    from specs import TABLE
    if pid not in TABLE:
        print('CHECKER-ERROR unknown property ' + pid)
        return 3
    entry = TABLE[pid]
    if args.replay:
        return do_replay(pid, entry, args.replay)

    timeout_ms = entry.get('timeout_ms', {}).get(tier, 10000 if tier == 'quick' else 60000)
    try:
        sp = driver.build_spec(entry['modules'])
    except Exception as e:
        print('CHECKER-ERROR building specs: %r' % (e,))
        import traceback
        traceback.print_exc()
        return 3
    keys = [k for k, c in sp.contracts.items() if pid in c.props]
    if args.only:
        keys = [k for k in keys if args.only in k]
    if not keys:
        print('CHECKER-ERROR no contracts for ' + pid)
        return 3
    opts = dict(entry.get('opts', {}))
    opts['canary'] = True
    # replays are rewritten by every run
    rdir = os.path.join(VERIF, 'replays', pid)
    if os.path.isdir(rdir) and not args.only:
        for fn in os.listdir(rdir):
            os.unlink(os.path.join(rdir, fn))
    if tier == 'thorough':
        opts['second_every'] = int(os.environ.get('VERIF_SECOND_EVERY', '12'))
    results = driver.run_all(entry['modules'], keys, timeout_ms, seed, opts,
                             workers=int(os.environ.get('VERIF_WORKERS', '16')))

    errors = [r for r in results if r['error']]
    all_obs = [o for r in results for o in r['obligations']]
    canaries = [o for o in all_obs if o['kind'] == 'canary']
    obs = [o for o in all_obs if o['kind'] != 'canary']
    failed = [o for o in obs if o['result'] not in ('proved', 'error')]
    for o in obs:
        if o['result'] == 'error':
            errors.append({'key': o['name'], 'error': 'solver error: %s' % o.get('reason', '')[:300]})
    proved = [o for o in obs if o['result'] == 'proved']
    if os.environ.get('VERIF_DUMP_FAILED'):
        with open(os.environ['VERIF_DUMP_FAILED'], 'w') as fh:
            for o in failed:
                fh.write('%s %s %s\n' % (o['name'], o['result'], o.get('path', '')))

    known = load_json(os.path.join(VERIF, 'known_findings.json'), {'findings': []})['findings']
    baseline = load_json(os.path.join(VERIF, 'baseline_obligations.json'), {}).get(pid, [])

    lines = []
    exit_code = 0
    violations = 0
    known_hit = []
    undecided = []
    replays = []

    # ---- vacuity guards
    vac = {'contracts': len(keys), 'contracts_with_obligations': 0, 'canaries': len(canaries),
           'canaries_not_proved': 0, 'vacuous_contracts': []}
    for r in results:
        if r['error']:
            continue
        real = [o for o in r['obligations'] if o['kind'] != 'canary']
        can = [o for o in r['obligations'] if o['kind'] == 'canary']
        if real:
            vac['contracts_with_obligations'] += 1
        else:
            vac['vacuous_contracts'].append(r['key'] + ' (no obligations)')
        # every loop whose body can end normally must have an iteration that does so
        by_loop = {}
        for o in can:
            lp = (o.get('info') or {}).get('loop')
            if lp is not None:
                by_loop.setdefault(lp, []).append(o)
        for lp, os_ in by_loop.items():
            if all(o['result'] == 'proved' for o in os_) and not any(
                    o['result'] not in ('proved',) for o in real):
                vac['vacuous_contracts'].append('%s (loop %s: no iteration reaches the end of the body)'
                                                % (r['key'], lp))
        can = [o for o in can if (o.get('info') or {}).get('loop') is None]
        if can and all(o['result'] == 'proved' for o in can):
            # a failed obligation that is assumed afterwards (loop initiation, call preconditions)
            # makes everything behind it unreachable: that is the failure's consequence, reported
            # with the failure, not a vacuous contract
            if any(o['result'] not in ('proved',) for o in real):
                vac.setdefault('unreachable_after_failure', []).append(r['key'])
            else:
                vac['vacuous_contracts'].append(r['key'] + ' (every exit unreachable: canary proved)')
        vac['canaries_not_proved'] += sum(1 for o in can if o['result'] != 'proved')
    if vac['vacuous_contracts']:
        errors.append({'key': 'vacuity', 'error': 'vacuous: ' + '; '.join(vac['vacuous_contracts'][:5])})

    standin = None
    if errors:
        exit_code = 3
        # A function that cannot be brought within the verifier's reach on this tree (construct
        # outside the subset, contract that no longer matches the code's shape): a bounded check
        # stands in for it - the property's native oracle over its stated bound, labelled
        # bounded and never counted as proved.  A violation it reproduces is reported; if it
        # explores its whole bound without one, the run's verdict for that function is
        # "held within the bound" (NOTE lines, evidence level `other`).  Engine crashes, solver
        # errors and vacuity stay checker errors.
        structural = [r for r in errors if any(t in str(r['error']) for t in
                                               ('out-of-subset', 'spec-error', 'front-error'))]
        hard = [r for r in errors if r not in structural]
        for r in hard[:10]:
            lines.append('CHECKER-ERROR %s: %s' % (r['key'], str(r['error']).split('\n')[0]))
        if structural and not entry.get('replay'):
            for r in structural[:10]:
                lines.append('CHECKER-ERROR %s: %s' % (r['key'], str(r['error']).split('\n')[0]))
        if structural and entry.get('replay'):
            ob0 = {'name': 'bounded-standin[%s]' % structural[0]['key'], 'kind': 'bounded',
                   'role': 'prop', 'result': 'unknown', 'contract': structural[0]['key']}
            skip = [f.get('witness_signature') for f in known if f.get('status', 'open') == 'open'
                    and f.get('witness_signature')]
            out = native(entry['replay'], {'mode': 'search', 'property': pid, 'obligation': ob0,
                                           'seed': seed, 'tier': tier, 'skip_signatures': skip})
            standin = {'function': structural[0]['key'], 'reason': str(structural[0]['error'])[:200],
                       'kind': 'native bounded search of the property oracle',
                       'status': out.get('status'), 'tried': out.get('tried')}
            for r in structural[:10]:
                lines.append('NOTE property=%s %s is outside the verifier\'s reach on this tree (%s): '
                             'bounded stand-in = native oracle of the property (%s, %s cases)'
                             % (pid, r['key'], str(r['error']).split('\n')[0][:160], out.get('status'),
                                out.get('tried')))
            if out.get('status') == 'reproduced':
                path = write_replay(pid, ob0, out)
                lines.append('VIOLATION property=%s replay=%s' % (pid, path))
                violations += 1
                exit_code = 1
            elif out.get('status') == 'not-found' and not hard:
                exit_code = 0
            else:
                lines.append('CHECKER-ERROR bounded stand-in did not complete: %s' % str(out)[:200])

    # ---- failed obligations: replay / search / verdict
    replay_mod = entry.get('replay')
    seen_sig = set()
    # one replay per distinct obligation name (paths/variants of the same clause
    # share one), at most MAX_REPLAYS native runs, in parallel
    groups = {}
    for ob in failed:
        base = re.sub(r'#[^:]*', '', re.sub(r'/\d+$', '', ob['name']))
        groups.setdefault((ob.get('contract', '').split('#')[0], base), []).append(ob)
    MAX_REPLAYS = int(os.environ.get('VERIF_MAX_REPLAYS', '12'))
    order = sorted(groups.items(), key=lambda kv: (kv[1][0]['role'] == 'aux', kv[0]))

    known_pid = [f for f in known if f.get('property') == pid and f.get('status', 'open') == 'open']

    def hints(ob):
        base = re.sub(r'/\d+$', '', ob['name'])
        mine = [f for f in known_pid if any(n in (base, ob['name'])
                                           for n in [f.get('obligation')] + list(f.get('also', [])))]
        return {'want_signature': mine[0].get('witness_signature') if mine else None,
                'skip_signatures': [f.get('witness_signature') for f in known
                                    if f not in mine and f.get('status', 'open') == 'open'
                                    and f.get('witness_signature')]}

    def investigate(ob):
        outcome = None
        if not replay_mod:
            return None
        if ob['result'] in ('sat', 'refuted-finite-scope'):
            outcome = native(replay_mod, {'mode': 'replay', 'property': pid, 'obligation': ob,
                                          'seed': seed})
            if outcome.get('status') != 'reproduced':
                o2 = native(replay_mod, dict({'mode': 'search', 'property': pid, 'obligation': ob,
                                              'seed': seed, 'tier': tier}, **hints(ob)))
                if o2.get('status') == 'reproduced':
                    outcome = o2
        elif ob['result'] in ('unknown', 'candidate-finite-scope'):
            if ob.get('witness'):
                outcome = native(replay_mod, {'mode': 'replay', 'property': pid,
                                              'obligation': ob, 'seed': seed})
                if outcome.get('status') == 'reproduced':
                    return outcome
            outcome = native(replay_mod, dict({'mode': 'search', 'property': pid, 'obligation': ob,
                                               'seed': seed, 'tier': tier}, **hints(ob)))
        return outcome
    from concurrent.futures import ThreadPoolExecutor
    heads = [obs_[0] for _, obs_ in order]
    with ThreadPoolExecutor(max_workers=8) as tp:
        outcomes = list(tp.map(investigate, heads[:MAX_REPLAYS]))
    outcomes += [None] * (len(heads) - len(outcomes))
    not_investigated = 0
    for (gkey, gobs), ob, outcome in zip(order, heads, outcomes):
        reproduced = bool(outcome) and outcome.get('status') == 'reproduced'
        refuted = any(o['result'] in ('sat', 'refuted-finite-scope') for o in gobs)
        match = [f for f in known if finding_matches(f, pid, ob, outcome)]
        if match and (reproduced or refuted):
            sig = (match[0].get('id'),)
            if sig not in seen_sig:
                seen_sig.add(sig)
                lines.append('KNOWN-FINDING: property=%s %s %s' % (
                    pid, ob['name'], match[0].get('what', '')))
            known_hit.append(ob['name'])
            continue
        if reproduced:
            path = write_replay(pid, ob, outcome)
            replays.append(path)
            lines.append('VIOLATION property=%s replay=%s' % (pid, path))
            violations += 1
            exit_code = 1 if exit_code in (0, 1, 2) else exit_code
        elif refuted and ob['role'] != 'aux' and outcome is None and replay_mod:
            # beyond the replay budget of this run: counted, listed in the evidence
            violations += 1
            not_investigated += 1
            exit_code = 1 if exit_code in (0, 1, 2) else exit_code
        elif refuted and ob['role'] != 'aux':
            path = write_replay(pid, ob, outcome)
            replays.append(path)
            lines.append('VIOLATION property=%s replay=%s no-failing-input-found' % (pid, path))
            violations += 1
            exit_code = 1 if exit_code in (0, 1, 2) else exit_code
        else:
            undecided.extend(gobs)
            lines.append('UNDECIDED property=%s obligation=%s result=%s %s' % (
                pid, ob['name'], ob['result'], ob.get('reason', '')))
            if exit_code == 0:
                exit_code = 2

    # findings the contracts cannot express (stated in DESIGN.md): their recorded
    # witness is re-run natively; still failing -> KNOWN-FINDING line, exit code unchanged
    for f in known_pid:
        if f.get('native_only') and replay_mod:
            out = native(replay_mod, {'mode': 'search', 'property': pid, 'obligation': {},
                                      'seed': seed, 'tier': tier,
                                      'want_signature': f.get('witness_signature')})
            if out.get('status') == 'reproduced':
                lines.append('KNOWN-FINDING: property=%s %s %s' % (pid, f.get('obligation'), f.get('what', '')))
                known_hit.append(f.get('obligation'))
    if not_investigated:
        lines.append('NOTE property=%s %d more refuted obligation groups not replayed in this run '
                     '(replay budget %d); listed in the evidence' % (pid, not_investigated, MAX_REPLAYS))

    # ---- thorough extras
    extra = {}
    thorough = {}
    if tier == 'thorough':
        # (a) second opinions of z3 4.8.12 and cvc5 on every k-th proved obligation
        sec = [o['second'] for o in proved if o.get('second')]
        tally = {}
        for d in sec:
            for k_, v_ in d.items():
                tally.setdefault(k_, {}).setdefault(v_, 0)
                tally[k_][v_] += 1
        thorough['second_opinions'] = {'sampled': len(sec), 'results': tally}
        if any(v_ == 'sat' for d in sec for v_ in d.values()):
            lines.append('CHECKER-ERROR a second solver reports sat for an obligation z3 proved (see evidence)')
            exit_code = 3
        # (b) proof stability: the whole run again under another seed; an obligation proved
        # under one seed only is reported (brittle), never counted as a violation
        try:
            res2 = driver.run_all(entry['modules'], keys, timeout_ms, seed + 1,
                                  dict(opts, second_every=0), workers=int(os.environ.get('VERIF_WORKERS', '16')))
            p1 = {o['name'] for o in proved}
            p2 = {o['name'] for r in res2 for o in r['obligations']
                  if o['kind'] != 'canary' and o['result'] == 'proved'}
            all2 = {o['name'] for r in res2 for o in r['obligations'] if o['kind'] != 'canary'}
            brittle = sorted((p1 - p2) & all2) + sorted((p2 - p1) & {o['name'] for o in obs})
            thorough['stability'] = {'seeds': [seed, seed + 1], 'brittle': brittle[:50]}
            for b_ in brittle[:10]:
                lines.append('BRITTLE property=%s obligation=%s proved under one seed only' % (pid, b_))
        except Exception as e:      # noqa
            thorough['stability'] = {'error': repr(e)[:200]}
        # (c) the native oracle of the property over its larger (thorough) bound, for every
        # property that has one (labelled bounded, never counted as proved)
        if False:   # the native oracle runs over its thorough bound through the bounded hook below
            skip_sigs = [f.get('witness_signature') for f in known if f.get('status', 'open') == 'open'
                         and f.get('witness_signature')]
            out = native(replay_mod, {'mode': 'search', 'property': pid, 'obligation': {}, 'seed': seed,
                                      'tier': 'thorough', 'skip_signatures': skip_sigs}, timeout=1800)
            thorough['native_search'] = {'status': out.get('status'), 'tried': out.get('tried')}
            if out.get('status') == 'reproduced':
                ob_ = {'name': 'thorough-native[%s]' % pid, 'kind': 'bounded', 'role': 'prop',
                       'result': 'native', 'contract': None}
                path_ = write_replay(pid, ob_, out)
                lines.append('VIOLATION property=%s replay=%s' % (pid, path_))
                violations += 1
                exit_code = 1 if exit_code in (0, 1, 2) else exit_code
    hook = entry.get('thorough_hook')
    if tier == 'thorough' and hook:
        mod = importlib.import_module(hook)
        extra = mod.run(pid, sp, entry, results, seed) or {}
        for ln in extra.get('lines', []):
            lines.append(ln)
        if extra.get('violations'):
            violations += extra['violations']
            exit_code = 1 if exit_code in (0, 1, 2) else exit_code
        if extra.get('checker_error') and exit_code == 0:
            exit_code = 3
    # bounded stand-ins (native, labelled bounded; never counted as proved)
    bounded = []
    # every property that has a native oracle also runs it over its stated bound (quick or
    # thorough families): a bounded complement to the deductive verdict, labelled bounded
    bhook = entry.get('bounded_hook') or ('pyvc.bounded_native' if entry.get('replay') else None)
    if bhook:
        mod = importlib.import_module(bhook)
        b = mod.run(pid, tier, seed, known)
        bounded = b.get('standins', [])
        for ln in b.get('lines', []):
            lines.append(ln)
        if b.get('violations'):
            violations += b['violations']
            exit_code = 1 if exit_code in (0, 1, 2) else exit_code
        if b.get('error') and exit_code == 0:
            exit_code = 3

    wall = time.time() - t0
    n_ob = len(obs)
    n_pr = len(proved)
    level = entry.get('level', 'proof')
    if n_pr != n_ob or exit_code == 3 or standin:
        level_out = 'other'
    else:
        level_out = level
    by_name = {}
    for o in obs:
        by_name.setdefault(o['name'].split('#')[0], []).append(o)
    samples = []
    for o in (failed[:3] + proved[:4]):
        samples.append({'obligation': o['name'], 'contract': o.get('contract'), 'kind': o['kind'],
                        'role': o['role'], 'result': o['result'], 'seconds': o['seconds'],
                        'path_decisions': o.get('path'), 'witness': o.get('witness')})
    functions = [r['function'] for r in results if r.get('function')]
    uniq_fn = {}
    for f in functions:
        uniq_fn[f['qualname']] = f
    assumptions = list(entry.get('assumptions', []))
    for r in results:
        for a in r.get('assumptions', []):
            if a not in assumptions:
                assumptions.append(a)
    coverage = {
        'obligations': n_ob,
        'discharged': n_pr,
        'checker_cmd': './check %s --tier %s' % (pid, tier),
        'trusted_base': entry.get('trusted_base', []),
        'explanation': entry.get('explanation', '') + (
            ' NOT ALL OBLIGATIONS DISCHARGED on this run: %d of %d.' % (n_pr, n_ob)
            if n_pr != n_ob else ''),
        'samples': samples,
        'functions_under_contract': sorted(uniq_fn.values(), key=lambda f: f['qualname']),
        'contracts': len(keys),
        'paths': sum(r['paths'] for r in results),
        'obligation_names': len(by_name),
        'by_kind': _count(obs, 'kind'),
        'by_role': _count(obs, 'role'),
        'by_backend': _count(obs, 'backend'),
        'by_result': _count(obs, 'result'),
        'solver_time_s': round(sum(o['seconds'] for o in all_obs), 3),
        'slowest': sorted(({'obligation': o['name'], 'seconds': o['seconds']} for o in obs),
                          key=lambda x: -x['seconds'])[:5],
        'vacuity': vac,
        'bounded_standins': bounded + ([standin] if standin else []),
        'known_findings_matched': known_hit,
        'undecided': [o['name'] for o in undecided],
        'replays': replays,
        'per_obligation': [{'name': o['name'], 'role': o['role'], 'kind': o['kind'],
                            'backend': o['backend'], 'result': o['result'],
                            'seconds': o['seconds']} for o in obs]
        if len(obs) <= 400 else 'omitted (%d obligations); see by_kind/by_result' % len(obs),
        'timeout_ms': timeout_ms,
    }
    if thorough:
        coverage['thorough'] = thorough
    coverage.update(extra.get('coverage', {}))
    ev = {'property_id': pid, 'tier': tier, 'seed': seed, 'level': level_out,
          'coverage': coverage, 'assumptions': assumptions, 'wall_s': round(wall, 2),
          'violations': violations}
    if not args.no_evidence and not args.only:
        os.makedirs(os.path.join(VERIF, 'evidence'), exist_ok=True)
        with open(os.path.join(VERIF, 'evidence', pid + '.json'), 'w') as f:
            json.dump(ev, f, indent=1, default=str)
    for ln in lines:
        print(ln)
    print('%s tier=%s contracts=%d paths=%d obligations=%d discharged=%d violations=%d '
          'undecided=%d wall=%.1fs exit=%d' % (pid, tier, len(keys), coverage['paths'], n_ob, n_pr,
                                               violations, len(undecided), wall, exit_code))
    if args.verbose:
        for r in sorted(results, key=lambda r: -r.get('wall_s', 0))[:4]:
            print('  GEN %.1fs %s paths=%d' % (r.get('wall_s', 0), r['key'], r['paths']))
        for o in coverage['slowest']:
            print('  SLOW %.2fs %s' % (o['seconds'], o['obligation']))
        for o in failed:
            print('  FAILED', o['name'], o['result'], o.get('witness'))
    return exit_code


def _count(obs, key):
    d = {}
    for o in obs:
        d[str(o.get(key))] = d.get(str(o.get(key)), 0) + 1
    return d


def do_replay(pid, entry, path):
    rec = load_json(os.path.join(VERIF, path) if not os.path.isabs(path) else path, None)
    if rec is None:
        print('CHECKER-ERROR no such replay file ' + path)
        return 3
    ob = {'name': rec['obligation'], 'contract': rec.get('contract'), 'kind': rec['kind'],
          'role': rec['role'], 'result': rec['solver_result'], 'witness': rec.get('witness'),
          'line': rec.get('line'), 'path': rec.get('path')}
    nat = rec.get('native') or {}
    req = {'mode': 'replay', 'property': pid, 'obligation': ob, 'seed': 0,
           'history': nat.get('history')}
    out = native(entry.get('replay'), req)
    print(json.dumps(out, indent=1, default=str))
    if out.get('status') == 'reproduced':
        print('VIOLATION property=%s replay=%s' % (pid, path))
        return 1
    return 0


if __name__ == '__main__':
    sys.exit(main())
