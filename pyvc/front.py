"""Front end: read /repo's *current working tree*, locate functions by qualified
name and hand the real ast.FunctionDef nodes to the symbolic executor.

What extraction drops is stated in DESIGN.md 3.1: comments, docstrings, type
annotations, assert messages.  Nothing else is rewritten.
"""
import ast
import hashlib
import os

REPO = os.environ.get('VERIF_REPO', '/repo')


class FrontError(Exception):
    """Function/class named by a contract is missing: checker error, exit 3."""


class Module:
    def __init__(self, name, path):
        self.name = name
        self.path = path
        with open(path, encoding='utf-8') as f:
            self.source = f.read()
        self.tree = ast.parse(self.source, filename=path)
        self.functions = {}     # qualname (within module) -> FunctionDef
        self.classes = {}       # class name -> ClassDef
        self.globals = {}       # simple module-level constants name -> ast expr
        self.imports = {}       # local name -> dotted target
        self._index(self.tree.body, '')

    def _index(self, body, prefix, cls=None):
        for node in body:
            if isinstance(node, (ast.FunctionDef,)):
                q = prefix + node.name
                # property setters: keep both under distinct names
                kind = None
                for d in node.decorator_list:
                    if isinstance(d, ast.Attribute) and d.attr == 'setter':
                        kind = 'setter'
                if kind == 'setter':
                    q = q + '.setter'
                self.functions[q] = node
                node._qual = self.name + '.' + q
                node._cls = cls
                self._index_nested(node, q + '.<locals>.')
            elif isinstance(node, ast.ClassDef):
                self.classes[prefix + node.name] = node
                node._qual = self.name + '.' + prefix + node.name
                self._index(node.body, prefix + node.name + '.', cls=node)
            elif isinstance(node, ast.Assign) and not prefix:
                for t in node.targets:
                    if isinstance(t, ast.Name):
                        self.globals[t.id] = node.value
            elif isinstance(node, ast.AnnAssign) and not prefix:
                if isinstance(node.target, ast.Name) and node.value is not None:
                    self.globals[node.target.id] = node.value
            elif isinstance(node, ast.Import) and not prefix:
                for a in node.names:
                    self.imports[a.asname or a.name.split('.')[0]] = \
                        a.name if a.asname else a.name.split('.')[0]
            elif isinstance(node, ast.ImportFrom) and not prefix:
                mod = node.module or ''
                if node.level:
                    base = self.name.split('.')
                    # package modules: __init__ counts as the package itself
                    if not self.path.endswith('__init__.py'):
                        base = base[:-1]
                    base = base[:len(base) - (node.level - 1)]
                    mod = '.'.join(base + ([mod] if mod else []))
                for a in node.names:
                    self.imports[a.asname or a.name] = mod + '.' + a.name

    def _index_nested(self, fn, prefix):
        for node in ast.walk(fn):
            if node is fn:
                continue
            if isinstance(node, ast.FunctionDef) and not hasattr(node, '_qual'):
                q = prefix + node.name
                self.functions[q] = node
                node._qual = self.name + '.' + q
                node._cls = None
            elif isinstance(node, ast.ClassDef) and not hasattr(node, '_qual'):
                self.classes[prefix + node.name] = node
                node._qual = self.name + '.' + prefix + node.name
                for sub in node.body:
                    if isinstance(sub, ast.FunctionDef):
                        q = prefix + node.name + '.' + sub.name
                        self.functions[q] = sub
                        sub._qual = self.name + '.' + q
                        sub._cls = node


class Repo:
    """All of desper, parsed from the working tree on every run."""

    def __init__(self, root=None):
        self.root = root or REPO
        self.modules = {}
        pkg = os.path.join(self.root, 'desper')
        for dirpath, _, files in os.walk(pkg):
            for fn in sorted(files):
                if not fn.endswith('.py'):
                    continue
                path = os.path.join(dirpath, fn)
                rel = os.path.relpath(path, self.root)[:-3].split(os.sep)
                if rel[-1] == '__init__':
                    rel = rel[:-1]
                name = '.'.join(rel)
                self.modules[name] = Module(name, path)

    def split(self, qualname):
        """'desper.logic.world.World.add_component' -> (module, 'World.add_component')"""
        parts = qualname.split('.')
        for i in range(len(parts), 0, -1):
            mod = '.'.join(parts[:i])
            if mod in self.modules:
                rest = '.'.join(parts[i:])
                m = self.modules[mod]
                if rest in m.functions or rest in m.classes or not rest:
                    return m, rest
        raise FrontError('no such function or class in the working tree: ' + qualname)

    def function(self, qualname):
        m, rest = self.split(qualname)
        if rest not in m.functions:
            raise FrontError('not a function: ' + qualname)
        return m, m.functions[rest]

    def klass(self, qualname):
        m, rest = self.split(qualname)
        if rest not in m.classes:
            raise FrontError('not a class: ' + qualname)
        return m, m.classes[rest]

    def resolve_class(self, module, expr):
        """Resolve a base-class expression of `module` to a repo class qualname
        or to a builtin name."""
        if isinstance(expr, ast.Name):
            n = expr.id
            if n in module.classes:
                return module.name + '.' + n
            if n in module.imports:
                tgt = module.imports[n]
                return self.canonical(tgt)
            return n
        if isinstance(expr, ast.Attribute):
            base = self.resolve_class(module, expr.value)
            return base + '.' + expr.attr
        if isinstance(expr, ast.Subscript):      # Generic[T], Handle[World]
            return self.resolve_class(module, expr.value)
        return ast.dump(expr)

    def canonical(self, dotted, _depth=0):
        """Follow re-exports (`from .world import *`) to the defining module."""
        if _depth > 6:
            return dotted
        parts = dotted.split('.')
        for i in range(len(parts) - 1, 0, -1):
            mod = '.'.join(parts[:i])
            if mod in self.modules:
                m = self.modules[mod]
                rest = '.'.join(parts[i:])
                head = parts[i]
                if head in m.classes or head in m.functions or head in m.globals:
                    return dotted
                if head in m.imports:
                    return self.canonical(
                        m.imports[head] + ('.' + '.'.join(parts[i + 1:])
                                           if parts[i + 1:] else ''), _depth + 1)
                # star imports
                for node in m.tree.body:
                    if isinstance(node, ast.ImportFrom) and any(
                            a.name == '*' for a in node.names):
                        sub = node.module or ''
                        if node.level:
                            base = m.name.split('.')
                            if not m.path.endswith('__init__.py'):
                                base = base[:-1]
                            base = base[:len(base) - (node.level - 1)]
                            sub = '.'.join(base + ([sub] if sub else []))
                        if sub in self.modules:
                            sm = self.modules[sub]
                            if head in sm.classes or head in sm.functions \
                                    or head in sm.globals or head in sm.imports:
                                return self.canonical(sub + '.' + rest, _depth + 1)
                return dotted
        return dotted

    def mro(self, class_qual):
        """Linearisation good enough for single inheritance + mixins as used in
        desper: depth-first, left to right, duplicates dropped (kept last)."""
        out = []

        def walk(q):
            out.append(q)
            try:
                m, c = self.klass(q)
            except FrontError:
                return
            for b in c.bases:
                walk(self.resolve_class(m, b))
        walk(class_qual)
        seen, res = set(), []
        for q in reversed(out):
            if q not in seen:
                seen.add(q)
                res.append(q)
        res.reverse()
        # object/Generic/Protocol/ABC are irrelevant for method lookup
        return res

    def find_method(self, class_qual, name, after=None):
        """Method lookup through the class hierarchy read from the AST.
        `after`: start after this class in the MRO (super())."""
        mro = self.mro(class_qual)
        if after is not None and after in mro:
            mro = mro[mro.index(after) + 1:]
        for q in mro:
            try:
                m, c = self.klass(q)
            except FrontError:
                continue
            rest = q[len(m.name) + 1:]
            for key in (rest + '.' + name,):
                if key in m.functions:
                    return m, m.functions[key], q
        return None

    def class_attr(self, class_qual, name):
        """Class-level attribute default (ast expr) through the hierarchy."""
        for q in self.mro(class_qual):
            try:
                m, c = self.klass(q)
            except FrontError:
                continue
            for node in c.body:
                if isinstance(node, ast.Assign):
                    for t in node.targets:
                        if isinstance(t, ast.Name) and t.id == name:
                            return m, node.value
                elif isinstance(node, ast.AnnAssign):
                    if isinstance(node.target, ast.Name) and node.target.id == name \
                            and node.value is not None:
                        return m, node.value
        return None


def strip_docstring(fn):
    body = fn.body
    if body and isinstance(body[0], ast.Expr) and isinstance(
            getattr(body[0], 'value', None), ast.Constant) and isinstance(
            body[0].value.value, str):
        return body[1:]
    return body


def describe(module, fn):
    """Evidence record of one function under contract."""
    seg = ast.get_source_segment(module.source, fn) or ''
    dump = ast.dump(fn, include_attributes=False)
    kinds = sorted({type(n).__name__ for n in ast.walk(fn)})
    return {
        'qualname': fn._qual,
        'file': os.path.relpath(module.path, REPO),
        'lines': [fn.lineno, fn.end_lineno],
        'source_sha256': hashlib.sha256(seg.encode()).hexdigest()[:16],
        'ast_sha256': hashlib.sha256(dump.encode()).hexdigest()[:16],
        'node_kinds': kinds,
    }
