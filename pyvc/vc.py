"""Discharging obligations: z3 (primary), z3 4.8.12 / cvc5 CLIs as second
opinions on the exported SMT-LIB, all on a process pool."""
import multiprocessing as mp
import os
import subprocess
import tempfile
import time
import z3

from . import prelude
from .sym import str_const_axioms


TRANSCENDENTAL = ('sqrt', 'cos', 'sin', 'atan2', 'tan')


_SYMS = {}      # ast id -> (formula kept alive, frozenset of declaration names in it)


def symset(f):
    """Names of all function/constant declarations occurring in f (memoised per formula:
    the hypotheses of a path are shared by its obligations)."""
    k = f.get_id()
    hit = _SYMS.get(k)
    if hit is not None and hit[0].eq(f):
        return hit[1]
    seen = set()
    found = set()
    stack = [f]
    while stack:
        g = stack.pop()
        i = g.get_id()
        if i in seen:
            continue
        seen.add(i)
        if z3.is_app(g):
            found.add(g.decl().name())
            stack.extend(g.children())
        elif z3.is_quantifier(g):
            stack.append(g.body())
    r = frozenset(found)
    if len(_SYMS) > 200000:
        _SYMS.clear()
    _SYMS[k] = (f, r)
    return r


def uses(formulas, names):
    found = set()
    for f in formulas:
        found |= symset(f) & names
    return found


def background(formulas):
    ax = []
    ax += str_const_axioms()
    ax += prelude.class_consts_axioms()
    if uses(formulas, {'desc', 'subs_len', 'subs_arr'}):
        ax += prelude.hierarchy_axioms()
    ax += prelude.idxof_axioms(formulas)
    import sys
    th = sys.modules.get('pyvc.theory')
    if th is not None:
        ax += th.injection_axioms()
        ax += th.typeof_axioms(formulas)
        ax += th.pack_axioms()
        ax += th.fnref_axioms()
        if uses(formulas, {'wref', 'referent'}):
            ax += th.weakref_axioms()
    return ax


def ackermannize(formulas):
    """Replace applications of the axiomatised real functions by fresh real
    constants, keyed on the simplified arguments, plus pairwise congruence
    (a = b => f(a) = f(b)).  The instantiated axioms are already hypotheses."""
    cache = {}
    table = {}
    apps = []

    def rec(f):
        k = f.get_id()
        if k in cache:
            return cache[k]
        if z3.is_app(f) and f.num_args() > 0:
            kids = [rec(c) for c in f.children()]
            if f.decl().name() in TRANSCENDENTAL and f.decl().kind() == z3.Z3_OP_UNINTERPRETED:
                skids = [z3.simplify(c, som=True) for c in kids]
                key = f.decl().name() + '|' + '|'.join(c.sexpr() for c in skids)
                if key not in table:
                    table[key] = z3.Real('ack!%d' % len(table))
                    apps.append((f.decl().name(), skids, table[key]))
                r = table[key]
            else:
                r = f.decl()(*kids) if any(not a.eq(b) for a, b in zip(kids, f.children())) else f
        elif z3.is_quantifier(f):
            r = f
        else:
            r = f
        cache[k] = r
        return r
    out = [rec(f) for f in formulas]
    for i in range(len(apps)):
        for j in range(i + 1, len(apps)):
            if apps[i][0] == apps[j][0]:
                out.append(z3.Implies(z3.And(*[a == b for a, b in zip(apps[i][1], apps[j][1])]),
                                      apps[i][2] == apps[j][2]))
    return out, table


def formulas_of(ob, extra=()):
    hyps = list(ob.hyps) + list(extra)
    fs = hyps + background(hyps + [ob.goal]) + [z3.Not(ob.goal)]
    table = {}
    if uses(fs, set(TRANSCENDENTAL)):
        fs, table = ackermannize(fs)
    return fs, table


def smt2_of(ob, extra=()):
    hyps = list(ob.hyps) + list(extra)
    allf = hyps + [ob.goal]
    hyps = hyps + background(allf)
    s = z3.Solver()
    fs = hyps + [z3.Not(ob.goal)]
    if uses(fs, set(TRANSCENDENTAL)):
        fs, _ = ackermannize(fs)
    for f in fs:
        s.add(f)
    return s.to_smt2()


def _solve(args):
    smt, timeout_ms, seed = args
    t0 = time.time()
    try:
        ctx = z3.Context()
        s = z3.Solver(ctx=ctx)
        s.from_string(smt)
        s.set('timeout', timeout_ms)
        s.set('random_seed', seed)
        r = s.check()
        res = str(r)
        reason = s.reason_unknown() if res == 'unknown' else ''
        return res, time.time() - t0, reason
    except Exception as e:          # solver crash is never a verdict
        return 'error', time.time() - t0, repr(e)


_pool = None


def pool(workers=None):
    global _pool
    if _pool is None:
        _pool = mp.get_context('fork').Pool(workers or min(16, os.cpu_count() or 4))
    return _pool


def discharge(obs, timeout_ms=10000, seed=0, workers=None):
    """Sets ob.result in {'proved','sat','unknown','error'} for each obligation."""
    jobs = []
    for ob in obs:
        if z3.is_true(ob.goal):
            ob.result, ob.seconds, ob.backend = 'proved', 0.0, 'trivial'
            continue
        ob.smt2 = smt2_of(ob)
        jobs.append(ob)
    if not jobs:
        return
    p = pool(workers)
    results = p.map(_solve, [(ob.smt2, timeout_ms, seed) for ob in jobs], chunksize=1)
    for ob, (res, secs, reason) in zip(jobs, results):
        ob.seconds = secs
        ob.backend = 'z3-%s' % z3.get_version_string()
        ob.reason = reason
        ob.result = {'unsat': 'proved', 'sat': 'sat', 'unknown': 'unknown',
                     'error': 'error'}[res]


def second_opinion(ob, tool, timeout_s=20):
    """Run an external solver CLI on the exported SMT-LIB. Returns 'unsat' /
    'sat' / 'unknown'."""
    with tempfile.NamedTemporaryFile('w', suffix='.smt2', delete=False,
                                     dir=os.environ.get('VERIF_SCRATCH')) as f:
        f.write(ob.smt2)
        path = f.name
    try:
        if tool == 'z3-4.8.12':
            cmd = ['/usr/bin/z3', '-T:%d' % timeout_s, path]
        elif tool == 'cvc5':
            cmd = ['/usr/bin/cvc5', '--tlimit=%d' % (timeout_s * 1000), path]
        else:
            raise ValueError(tool)
        try:
            out = subprocess.run(cmd, capture_output=True, text=True, timeout=timeout_s + 5).stdout
        except subprocess.TimeoutExpired:
            return 'unknown'
        first = out.strip().split('\n')[0].strip() if out.strip() else 'unknown'
        return first if first in ('sat', 'unsat') else 'unknown'
    finally:
        os.unlink(path)


def model_of(ob, timeout_ms=10000, extra=()):
    """Re-solve in-process to obtain a model (only for failed obligations)."""
    hyps = list(ob.hyps) + list(extra)
    fs = hyps + background(hyps + [ob.goal]) + [z3.Not(ob.goal)]
    table = {}
    if uses(fs, set(TRANSCENDENTAL)):
        fs, table = ackermannize(fs)
    s = z3.Solver()
    s.set('timeout', timeout_ms)
    for f in fs:
        s.add(f)
    r = s.check()
    if r == z3.sat:
        return s.model(), table
    return None, table


def export_groups(obs):
    """Obligations that share their path condition are exported ONCE: the common
    hypotheses are asserted, each goal i becomes  sel_i => (extra_i and not goal_i)
    and is checked under the assumption sel_i.  Returns [(smt2 text, [ob, ...])]."""
    groups = {}
    order = []
    for ob in obs:
        base = ob.hyps[:ob.base_len]
        key = (ob.decisions, tuple(h.get_id() for h in base))
        if key not in groups:
            groups[key] = (base, [])
            order.append(key)
        groups[key][1].append(ob)
    out = []
    for key in order:
        base, members = groups[key]
        goals = []
        for ob in members:
            extra = ob.hyps[ob.base_len:]
            goals.append(z3.And(*(list(extra) + [z3.Not(ob.goal)])))
        allf = list(base) + goals
        fs = list(base) + background(allf)
        sels = [z3.Bool('sel!%d' % i) for i in range(len(members))]
        fs = fs + [z3.Implies(sl, g) for sl, g in zip(sels, goals)]
        if uses(fs, set(TRANSCENDENTAL)):
            fs, _ = ackermannize(fs)
        s = z3.Solver()
        for f in fs:
            s.add(f)
        out.append((s.to_smt2(), members))
    return out


_sym_cache = {}


def symbols(f):
    """Names of the uninterpreted symbols (functions, constants, heap arrays)."""
    k = f.get_id()
    if k in _sym_cache:
        return _sym_cache[k]
    out = set()
    seen = set()
    stack = [f]
    while stack:
        g = stack.pop()
        if g.get_id() in seen:
            continue
        seen.add(g.get_id())
        if z3.is_quantifier(g):
            stack.append(g.body())
        elif z3.is_app(g):
            d = g.decl()
            if d.kind() == z3.Z3_OP_UNINTERPRETED:
                out.add(d.name())
            stack.extend(g.children())
    _sym_cache[k] = out
    return out


def export_groups_rel(obs):
    """Like export_groups, plus the symbol set of every hypothesis and goal so
    that phase 2 can first try each goal with the RELEVANT hypotheses only
    (dropping hypotheses is sound for proving; anything but `unsat` is re-checked
    with all of them)."""
    out = []
    for text, members, base_fs, goal_fs in _export(obs):
        out.append({'smt2': text, 'members': members,
                    'hyp_syms': [sorted(symbols(f)) for f in base_fs],
                    'goal_syms': [sorted(symbols(g)) for g in goal_fs]})
    return out


def _export(obs):
    groups = {}
    order = []
    for ob in obs:
        base = ob.hyps[:ob.base_len]
        key = (ob.decisions, tuple(h.get_id() for h in base))
        if key not in groups:
            groups[key] = (base, [])
            order.append(key)
        groups[key][1].append(ob)
    for key in order:
        base, members = groups[key]
        goals = []
        for ob in members:
            extra = ob.hyps[ob.base_len:]
            goals.append(z3.And(*(list(extra) + [z3.Not(ob.goal)])))
        allf = list(base) + goals
        fs = list(base) + background(allf)
        sels = [z3.Bool('sel!%d' % i) for i in range(len(members))]
        gfs = [z3.Implies(sl, g) for sl, g in zip(sels, goals)]
        allfs = fs + gfs
        if uses(allfs, set(TRANSCENDENTAL)):
            allfs, _ = ackermannize(allfs)
            # ackermannize appends congruence facts after the goals: keep the goals last
            n_extra = len(allfs) - len(fs) - len(gfs)
            if n_extra:
                cong = allfs[len(fs) + len(gfs):]
                allfs = allfs[:len(fs)] + cong + allfs[len(fs):len(fs) + len(gfs)]
            fs = allfs[:len(allfs) - len(gfs)]
            gfs = allfs[len(allfs) - len(gfs):]
        s = z3.Solver()
        for f in fs + gfs:
            s.add(f)
        yield s.to_smt2(), members, fs, gfs
