"""Loop rules.

* literal-length iteration (tuples, literal ranges, strings): complete unrolling;
* `while` / symbolic `for` with a sidecar invariant: initiation, preservation
  from an arbitrary state satisfying the invariant, use on exit.  The set of
  havocked locals is computed from the AST; the set of havocked heap fields is
  declared (or derived from direct writes) and *checked*: every field outside it
  must be unchanged at the end of the arbitrary iteration (obligation
  loop<k>.frame);
* `for x in C` over a live container additionally owes non-interference.
"""
import ast
import z3

from .sym import (Val, Con, ZV, TupV, SetV, DictV, ListV, OptV, Loc, NONE, Type,
                  TScalar, TInt, TSet, TDict, TList, TTuple, OutOfSubset, deref,
                  type_of_val, is_usort, list_from_items)
from .exec import _Break, _Continue, PathEnd, Frame
from . import prelude

MAX_UNROLL = 64


MUTATORS = {'add', 'discard', 'remove', 'clear', 'pop', 'popleft', 'append', 'insert', 'extend',
            'rotate', 'update', 'setdefault', 'appendleft', 'sort', 'reverse'}


def assigned_names(body):
    """Names the body rebinds (as opposed to containers it mutates in place)."""
    s = set()
    for st in body:
        for n in ast.walk(st):
            if isinstance(n, ast.Name) and isinstance(n.ctx, (ast.Store, ast.Del)):
                s.add(n.id)
            elif isinstance(n, ast.ExceptHandler) and n.name:
                s.add(n.name)
    return s


def stored_names(body):
    """Locals a loop body may change: assigned names, and names of local
    containers mutated in place (x.add(..), x[k] = .., del x[k], x += ..)."""
    s = set()
    for st in body:
        for n in ast.walk(st):
            if isinstance(n, ast.Name) and isinstance(n.ctx, (ast.Store, ast.Del)):
                s.add(n.id)
            elif isinstance(n, ast.ExceptHandler) and n.name:
                s.add(n.name)
            elif isinstance(n, ast.Call) and isinstance(n.func, ast.Attribute) \
                    and n.func.attr in MUTATORS and isinstance(n.func.value, ast.Name):
                s.add(n.func.value.id)
            elif isinstance(n, ast.Subscript) and isinstance(n.ctx, (ast.Store, ast.Del)) \
                    and isinstance(n.value, ast.Name):
                s.add(n.value.id)
    return s


def exec_while(X, st, fr):
    ls = X.spec.loop_spec(X, fr.fn, st) if fr.fn is not None else None
    if ls is None:
        # no invariant: only loops whose every test is decided concretely
        for _ in range(MAX_UNROLL):
            t = X.truth(X.ev(st.test, fr))
            if not isinstance(t, bool):
                t2 = z3.simplify(t)
                if z3.is_true(t2):
                    t = True
                elif z3.is_false(t2):
                    t = False
                elif X.bounded_unroll:
                    t = X.branch(t)
                else:
                    X.unsupported('while loop without an invariant', st)
            if not t:
                X.run_block(st.orelse, fr)
                return
            try:
                X.run_block(st.body, fr)
            except _Break:
                return
            except _Continue:
                continue
        if X.bounded_unroll:
            raise PathEnd()
        X.unsupported('while loop exceeds unrolling limit', st)
    _invariant_loop(X, st, fr, ls, None)


def exec_for(X, st, fr):
    it = X.ev(st.iter, fr)
    itv = deref(it)
    if X.has_concrete_len(itv):
        for x in X.iter_concrete(itv, st.iter):
            X.assign(st.target, x, fr)
            try:
                X.run_block(st.body, fr)
            except _Break:
                return
            except _Continue:
                continue
        X.run_block(st.orelse, fr)
        return
    ls = X.spec.loop_spec(X, fr.fn, st) if fr.fn is not None else None
    if ls is None:
        X.unsupported('for loop over a symbolic collection without an invariant', st)
    live = it if isinstance(it, Loc) else None
    seq, item = iteration_sequence(X, it, st)
    _invariant_loop(X, st, fr, ls, (seq, item, live))


def iteration_sequence(X, it, node):
    """(snapshot list, item function index -> value) for a symbolic iterable."""
    v = deref(it)
    if isinstance(v, ListV):
        if isinstance(it, Loc) and isinstance(v.E, (TDict, TSet, TList)):
            # elements are containers: iterate over LOCATIONS so that x.pop(..) on the
            # loop variable updates the element inside the list (CPython aliasing)
            def item(i, it=it):
                def get():
                    return deref(it).at(i)

                def set_(nv):
                    cur = deref(it)
                    lv = cur.E.to_leaves(nv)
                    it.set(ListV(cur.E, cur.n, [z3.Store(a, i, l) for a, l in zip(cur.ats, lv)]))
                return Loc(get, set_, v.E, '%s[%s]' % (it.desc, i))
            return v, item
        return v, v.at
    if isinstance(v, SetV):
        s = prelude.set_enumeration(X, v)
        return s, s.at
    if isinstance(v, DictV):
        s = prelude.set_enumeration(X, SetV(v.K, v.dom))
        return s, s.at
    if isinstance(v, prelude.DictKeys):
        d = deref(v.d)
        s = prelude.set_enumeration(X, SetV(d.K, d.dom))
        return s, s.at
    if isinstance(v, prelude.DictValues):
        d = deref(v.d)
        s = prelude.set_enumeration(X, SetV(d.K, d.dom))
        return s, (lambda i: d.select(s.ats[0][i]))
    if isinstance(v, prelude.DictItems):
        d = deref(v.d)
        s = prelude.set_enumeration(X, SetV(d.K, d.dom))
        return s, (lambda i: TupV([ZV(s.ats[0][i]), d.select(s.ats[0][i])]))
    if isinstance(v, prelude.Enumerate):
        seq, item = iteration_sequence(X, v.seq, node)
        return seq, (lambda i: TupV([ZV(i), item(i)]))
    if isinstance(v, prelude.SymRange):
        a = [X.num(x) for x in v.args]
        lo, hi = (z3.IntVal(0), a[0]) if len(a) == 1 else (a[0], a[1])
        n = z3.If(hi > lo, hi - lo, 0)
        fake = ListV(TInt, z3.simplify(n), [z3.K(z3.IntSort(), z3.IntVal(0))])
        return fake, (lambda i: ZV(lo + i))
    h = X.spec.sequence_hook(X, v, node)
    if h is not None:
        return h, h.at
    X.unsupported('iteration over %r' % (v,), node)


def _invariant_loop(X, st, fr, ls, forinfo):
    spec = X.spec
    k = ls.ordinal
    fname = X.fn_name
    is_for = forinfo is not None
    body_names = stored_names(st.body)
    rebound = assigned_names(st.body)
    if is_for:
        body_names |= stored_names([ast.Expr(st.target)]) | {
            n.id for n in ast.walk(st.target) if isinstance(n, ast.Name)}

    # declared local types: coerce current values (e.g. [x] -> List[T])
    for name, T in ls.vars.items():
        f, v = fr.lookup(name)
        if f is not None and not isinstance(v, Loc):
            fr_ = f
            fr_.vars[name] = T.from_leaves(T.to_leaves(v))

    idx0 = z3.IntVal(0)
    ghostvals = {}
    entryvals = {}
    seq = item = live = None
    if is_for:
        seq, item, live = forinfo
        X.named_ghosts[ls.seq] = seq
    live_before = deref(live) if live is not None else None

    def env_for(idx):
        env = {}
        f = fr
        chain = []
        while f is not None:
            chain.append(f)
            f = f.parent
        for f in reversed(chain):
            env.update(f.vars)
        # entry values of the parameters: `lo0` is `lo` as passed by the caller
        for pn, pv in getattr(X, 'entry_env', {}).items():
            env.setdefault(pn + '0', pv)
            env.setdefault(pn, pv)      # ghost parameters are not frame locals
        for gn, gv in X.named_ghosts.items():
            if isinstance(gn, str) and gn not in env and isinstance(gv, Val):
                env[gn] = gv
        if is_for:
            env[ls.index] = ZV(idx)
            env[ls.seq] = seq
            eidx = getattr(seq, 'enum_idx', None)
            if eidx is not None:
                from .exec import Builtin
                from .sym import coerce_term
                env['pos'] = Builtin('pos', lambda X_, a, k, n, eidx=eidx: ZV(
                    eidx(coerce_term(a[0], eidx.domain(0)))))
        for gname, g in ghostvals.items():
            env[gname] = g
        env.update(entryvals)
        return env

    def inv_formulas(idx):
        env = env_for(idx)
        import re
        out = []
        for name, text, role in ls.invariants:
            mt = re.fullmatch(r"\s*wf\(\s*(\w+)\s*(?:,\s*['\"]([^'\"]*)['\"]\s*)?\)\s*", text)
            if mt and mt.group(1) in env and isinstance(deref(env[mt.group(1)]), ZV):
                for cname, crole, f in spec.wf_clauses(X, deref(env[mt.group(1)]), mt.group(2)):
                    out.append(('%s.%s' % (name, cname), role, f))
                continue
            out.append((name, role, spec.eval_bool(X, text, env, fr.module)))
        return out

    # ---- initiation
    if is_for:
        X.assume(seq.n >= 0)
    for ename, etext in ls.entry.items():
        entryvals[ename] = deref(spec.eval_spec(X, etext, env_for(idx0), fr.module))
        X.named_ghosts[ename] = entryvals[ename]
    for gname, (GT, ginit, gstep) in ls.ghost.items():
        if callable(ginit):
            ghostvals[gname] = ginit(X, env_for(idx0))
        else:
            ghostvals[gname] = spec.eval_spec(X, ginit, env_for(idx0), fr.module)
        X.named_ghosts[gname] = ghostvals[gname]
    from .spec import oblige_split
    for name, role, f in inv_formulas(idx0):
        oblige_split(X, '%s:loop%d.init.%s' % (fname, k, name), f, 'loop-init', role,
                     assume_after=True)

    which = X.choose([True, True])

    # ---- havoc
    snap_heap = dict(X.heap)
    for name in sorted(body_names):
        f, v = fr.lookup(name)
        if f is None:
            continue
        if name in ls.vars:
            T = ls.vars[name]
        else:
            try:
                T = type_of_val(v)
            except OutOfSubset:
                if isinstance(v, Con) and v.v is None:
                    X.unsupported('loop-modified local %s is None at entry: declare its '
                                  'type in the loop spec' % name, st)
                X.unsupported('cannot havoc local %s (%r): declare its type' % (name, v), st)
        if isinstance(v, Loc):
            continue
        if isinstance(v, ZV) and is_usort(v.t.sort()) and name not in rebound:
            # a reference to an object: x[k] = v / x.append(v) change the object (its fields
            # are in the havoc list), not which object the name refers to
            continue
        nv = X.fresh(T, 'lv_' + name)
        f.vars[name] = nv
        if isinstance(nv, ZV):
            spec.note_allocated(X, nv.t)
    havoc_fields = set()
    for h in ls.havoc:
        if callable(h):
            h(X, env_for(idx0))
        else:
            spec.havoc_target(X, h, env_for(idx0))
    changed_by_havoc = {key for key in X.heap if key not in snap_heap
                        or any(not a.eq(b) for a, b in zip(X.heap[key], snap_heap[key]))}
    for gname, (GT, ginit, gstep) in ls.ghost.items():
        ghostvals[gname] = X.fresh(GT, 'lg_' + gname)
        X.named_ghosts[gname] = ghostvals[gname]
    idx = idx0
    if is_for and live is not None and isinstance(deref(live), ListV):
        # a live list is read element by element: at an arbitrary iteration the
        # sequence is the list's CURRENT value (kept fixed inside one iteration by
        # the non-interference obligation)
        seq = deref(live)
        if not isinstance(seq.E, (TDict, TSet, TList)):
            item = seq.at
        X.named_ghosts[ls.seq] = seq
    if is_for:
        idx = z3.Int(X.fresh_name('it'))
        X.assume(idx >= 0)
        X.assume(idx <= seq.n)
    for name, role, f in inv_formulas(idx):
        X.assume(f)

    if which == 1:
        # ---- exit path
        if is_for:
            X.assume(idx == seq.n)
        else:
            t = X.truth(X.ev(st.test, fr))
            X.assume(z3.Not(X._z(t)))
        X.run_block(st.orelse, fr)
        return

    # ---- arbitrary iteration
    if is_for:
        X.named_ghosts[ls.index] = ZV(idx)      # visible to the invariants of inner loops
        X.assume(idx < seq.n)
        X.assign(st.target, item(idx), fr)
    else:
        t = X.truth(X.ev(st.test, fr))
        X.assume(X._z(t))
    env_head = env_for(idx)
    headvals = {hn: spec.eval_spec(X, ht, env_head, fr.module) for hn, ht in ls.head.items()}
    dec0 = None
    if ls.decreases:
        dec0 = X.num(spec.eval_spec(X, ls.decreases, env_for(idx), fr.module))
    heap_mid = dict(X.heap)
    snap_head = X.snapshot() if ls.body_ensures else None
    try:
        X.run_block(st.body, fr)
    except _Continue:
        pass
    except _Break:
        return          # leaves the loop with the state at the break
    # reachability of the end of the iteration (vacuity guard: must NOT be provable on at least
    # one path through the body)
    X.oblige('%s:loop%d.canary' % (fname, k), z3.BoolVal(False), kind='canary', role='aux',
             assume_after=False, info={'loop': k})
    if ls.body_ensures:
        X.old_stack.append(snap_head)
        try:
            benv = env_for(idx)
            benv.update(headvals)
            for name, text, role in ls.body_ensures:
                oblige_split(X, '%s:loop%d.iteration.%s' % (fname, k, name),
                             spec.eval_bool(X, text, benv, fr.module), 'loop-iteration', role or 'prop')
        finally:
            X.old_stack.pop()
    # non-interference for live containers
    if live is not None and isinstance(deref(live), ListV) and \
            isinstance(deref(live).E, (TDict, TSet, TList)):
        # a list of containers: the elements may be updated in place, the list
        # itself (its length) must not change
        before = live_before_value(X, live, heap_mid)
        X.oblige('%s:loop%d.non-interference' % (fname, k), deref(live).n == before.n,
                 kind='loop-non-interference', role='prop')
    elif live is not None:
        cur = deref(live)
        eqf = X.eq(cur, live_before_value(X, live, heap_mid))
        X.oblige('%s:loop%d.non-interference' % (fname, k), X._z(eqf),
                 kind='loop-non-interference', role='prop')
    nidx = idx + 1 if is_for else idx
    now = env_for(idx)
    now.update(headvals)
    for gname, (GT, ginit, gstep) in ls.ghost.items():
        if callable(gstep):
            ghostvals[gname] = gstep(X, now, env_head)
        else:
            ghostvals[gname] = spec.eval_spec(X, gstep, now, fr.module)
    for name, role, f in inv_formulas(nidx):
        # proved-then-assumed: the structural invariants (wf.*) of the new state may be used by
        # the clauses checked after them
        oblige_split(X, '%s:loop%d.preserve.%s' % (fname, k, name), f, 'loop-preserve', role,
                     assume_after=name.startswith('wf'))
    if dec0 is not None:
        dec1 = X.num(spec.eval_spec(X, ls.decreases, env_for(nidx), fr.module))
        X.oblige('%s:loop%d.decreases' % (fname, k), z3.And(dec0 >= 0, dec1 < dec0),
                 kind='loop-decreases', role='prop')
    # frame of the havoc set: fields not havocked must be unchanged by the body
    for key, new in X.heap.items():
        if key in changed_by_havoc:
            continue
        old = heap_mid.get(key) or X.initial_leaves(key)
        if all(a.eq(b) for a, b in zip(new, old)):
            continue
        for a, b in zip(new, old):
            X.oblige('%s:loop%d.frame.%s.%s' % (fname, k, key[0], key[1]), a == b,
                     kind='loop-frame', role='aux')
    raise PathEnd()


def live_before_value(X, live, heap_mid):
    cur = X.heap
    X.heap = dict(heap_mid)
    try:
        return deref(live)
    finally:
        X.heap = cur
