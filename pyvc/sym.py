"""Symbolic values and types.

Containers are *values* made of z3 arrays (never z3 Seq / Lambda, see memory
notes): a composite value is a tree whose leaves are z3 terms; "array of
composite" is obtained by lifting every leaf to an array.  References to
containers that live in the heap are access paths (Loc), so mutation through a
local alias (`dest_map = target_map.handles`) writes back to the heap.
"""
import z3

_sorts = {}
_nones = {}


def usort(name):
    """Uninterpreted sort by name, with its distinguished None constant."""
    if name not in _sorts:
        _sorts[name] = z3.DeclareSort(name)
        _nones[name] = z3.Const('None_' + name, _sorts[name])
    return _sorts[name]


def none_of(sort):
    n = sort.name()
    if n not in _nones:
        _nones[n] = z3.Const('None_' + n, sort)
    return _nones[n]


def is_usort(sort):
    return sort.kind() == z3.Z3_UNINTERPRETED_SORT


class OutOfSubset(Exception):
    """Construct outside the supported subset: reported, never skipped."""


# --------------------------------------------------------------------- values

class Val:
    pass


class Con(Val):
    """A concrete Python value (int, float, str, bool, None, tuple of Con...)."""

    def __init__(self, v):
        self.v = v

    def __repr__(self):
        return 'Con(%r)' % (self.v,)


NONE = Con(None)


class ZV(Val):
    """A scalar z3 term."""

    def __init__(self, t):
        self.t = t

    def __repr__(self):
        return 'ZV(%s)' % self.t


class TupV(Val):
    """Fixed-length tuple (or list display) of values; cls = repo tuple subclass."""

    def __init__(self, items, cls=None, is_list=False):
        self.items = list(items)
        self.cls = cls
        self.is_list = is_list

    def __repr__(self):
        return 'TupV(%r,%s)' % (self.items, self.cls)


class SetV(Val):
    def __init__(self, K, arr):
        self.K, self.arr = K, arr


class DictV(Val):
    def __init__(self, K, V, dom, vals):
        self.K, self.V, self.dom, self.vals = K, V, dom, list(vals)

    def select(self, k):
        return self.V.from_leaves([a[k] for a in self.vals])

    def store(self, k, v):
        lv = self.V.to_leaves(v)
        return DictV(self.K, self.V, z3.Store(self.dom, k, True),
                     [z3.Store(a, k, l) for a, l in zip(self.vals, lv)])

    def remove(self, k):
        return DictV(self.K, self.V, z3.Store(self.dom, k, False), self.vals)


class ListV(Val):
    def __init__(self, E, n, ats):
        self.E, self.n, self.ats = E, n, list(ats)

    def at(self, i):
        return self.E.from_leaves([a[i] for a in self.ats])


class OptV(Val):
    def __init__(self, T, isnone, val):
        self.T, self.isnone, self.val = T, isnone, val


class StrV(Val):
    """Opaque string built by an f-string with symbolic parts (messages)."""

    def __init__(self, parts):
        self.parts = parts


# ---------------------------------------------------------------------- types

class Type:
    def fresh(self, name):
        return self.from_leaves([z3.Const('%s.%d' % (name, i), s)
                                 for i, s in enumerate(self.leaf_sorts())])


class TScalar(Type):
    def __init__(self, sort):
        self.sort = sort

    def leaf_sorts(self):
        return [self.sort]

    def from_leaves(self, ts):
        return ZV(ts[0])

    def to_leaves(self, v):
        return [coerce_term(v, self.sort)]

    def __repr__(self):
        return self.sort.name()

    def fresh(self, name):
        return ZV(z3.Const(name, self.sort))


TInt = TScalar(z3.IntSort())
TReal = TScalar(z3.RealSort())
TBool = TScalar(z3.BoolSort())
TStr = TScalar(z3.StringSort())


def TSort(name):
    return TScalar(usort(name))


class TSet(Type):
    def __init__(self, K):
        self.K = K

    def leaf_sorts(self):
        return [z3.ArraySort(self.K.sort, z3.BoolSort())]

    def from_leaves(self, ts):
        return SetV(self.K, ts[0])

    def to_leaves(self, v):
        v = deref(v)
        if isinstance(v, TupV) and not v.items:
            return [z3.K(self.K.sort, z3.BoolVal(False))]
        if isinstance(v, Con) and isinstance(v.v, (set, frozenset)) and not v.v:
            return [z3.K(self.K.sort, z3.BoolVal(False))]
        if not isinstance(v, SetV):
            raise OutOfSubset('cannot coerce %r to %r' % (v, self))
        return [v.arr]

    def empty(self):
        return SetV(self.K, z3.K(self.K.sort, z3.BoolVal(False)))

    def __repr__(self):
        return 'Set[%r]' % self.K


class TDict(Type):
    def __init__(self, K, V):
        self.K, self.V = K, V

    def leaf_sorts(self):
        return [z3.ArraySort(self.K.sort, z3.BoolSort())] + [
            z3.ArraySort(self.K.sort, s) for s in self.V.leaf_sorts()]

    def from_leaves(self, ts):
        return DictV(self.K, self.V, ts[0], ts[1:])

    def to_leaves(self, v):
        v = deref(v)
        if isinstance(v, Con) and v.v == {}:
            v = self.empty()
        if not isinstance(v, DictV):
            raise OutOfSubset('cannot coerce %r to %r' % (v, self))
        return [v.dom] + list(v.vals)

    def empty(self, tag='e'):
        return DictV(self.K, self.V, z3.K(self.K.sort, z3.BoolVal(False)),
                     [z3.Const('dflt_%s_%s_%d' % (self.K.sort.name(), _sort_id(s), i),
                               z3.ArraySort(self.K.sort, s))
                      for i, s in enumerate(self.V.leaf_sorts())])

    def __repr__(self):
        return 'Dict[%r,%r]' % (self.K, self.V)


class TList(Type):
    def __init__(self, E):
        self.E = E

    def leaf_sorts(self):
        return [z3.IntSort()] + [z3.ArraySort(z3.IntSort(), s)
                                 for s in self.E.leaf_sorts()]

    def from_leaves(self, ts):
        return ListV(self.E, ts[0], ts[1:])

    def to_leaves(self, v):
        v = deref(v)
        if isinstance(v, TupV):
            v = list_from_items(self.E, v.items)
        if not isinstance(v, ListV):
            raise OutOfSubset('cannot coerce %r to %r' % (v, self))
        return [v.n] + list(v.ats)

    def empty(self):
        return list_from_items(self.E, [])

    def __repr__(self):
        return 'List[%r]' % self.E


class TTuple(Type):
    def __init__(self, Ts, cls=None):
        self.Ts, self.cls = list(Ts), cls

    def leaf_sorts(self):
        return [s for T in self.Ts for s in T.leaf_sorts()]

    def from_leaves(self, ts):
        out, i = [], 0
        for T in self.Ts:
            n = len(T.leaf_sorts())
            out.append(T.from_leaves(ts[i:i + n]))
            i += n
        return TupV(out, self.cls)

    def to_leaves(self, v):
        v = deref(v)
        if isinstance(v, Con) and isinstance(v.v, tuple):
            v = TupV([Con(x) for x in v.v])
        assert isinstance(v, TupV) and len(v.items) == len(self.Ts), v
        return [l for T, x in zip(self.Ts, v.items) for l in T.to_leaves(x)]

    def __repr__(self):
        return 'Tuple%r' % (self.Ts,)


class TOpt(Type):
    """Optional of a type that has no None of its own (Int, Real, ...)."""

    def __init__(self, T):
        self.T = T

    def leaf_sorts(self):
        return [z3.BoolSort()] + self.T.leaf_sorts()

    def from_leaves(self, ts):
        return OptV(self.T, ts[0], self.T.from_leaves(ts[1:]))

    def to_leaves(self, v):
        v = deref(v)
        if isinstance(v, Con) and v.v is None:
            return [z3.BoolVal(True)] + [
                z3.Const('dfl_opt_%s_%d' % (_sort_id(s), i), s)
                for i, s in enumerate(self.T.leaf_sorts())]
        if isinstance(v, OptV):
            return [v.isnone] + self.T.to_leaves(v.val)
        return [z3.BoolVal(False)] + self.T.to_leaves(v)

    def __repr__(self):
        return 'Opt[%r]' % self.T


# -------------------------------------------------------------------- helpers

class Loc(Val):
    """Access path to a container stored in the heap or in a local."""

    def __init__(self, getter, setter, T, desc=''):
        self.get, self.set, self.T, self.desc = getter, setter, T, desc


def deref(v):
    while isinstance(v, Loc):
        v = v.get()
    return v


def _sort_id(s):
    """Printable, injective-enough name of a sort (array sorts all print as
    'Array')."""
    import re
    return re.sub(r'[^A-Za-z0-9]+', '_', s.sexpr()).strip('_')


def list_from_items(E, items):
    ats = [z3.Const('lst0_%s_%d' % (_sort_id(s), i),
                    z3.ArraySort(z3.IntSort(), s))
           for i, s in enumerate(E.leaf_sorts())]
    for idx, it in enumerate(items):
        lv = E.to_leaves(it)
        ats = [z3.Store(a, idx, l) for a, l in zip(ats, lv)]
    return ListV(E, z3.IntVal(len(items)), ats)


def coerce_term(v, sort):
    """Python/ZV value -> z3 term of the wanted sort."""
    v = deref(v)
    if isinstance(v, ZV):
        t = v.t
        if t.sort() == sort:
            return t
        if sort == z3.RealSort() and t.sort() == z3.IntSort():
            return z3.ToReal(t)
        if sort == z3.RealSort() and t.sort() == z3.BoolSort():
            return z3.If(t, z3.RealVal(1), z3.RealVal(0))
        if sort == z3.IntSort() and t.sort() == z3.BoolSort():
            return z3.If(t, z3.IntVal(1), z3.IntVal(0))
        raise OutOfSubset('sort mismatch: %s : %s where %s expected'
                          % (t, t.sort(), sort))
    if isinstance(v, Con):
        x = v.v
        if x is None:
            if is_usort(sort):
                return none_of(sort)
            raise OutOfSubset('None where %s expected' % sort)
        if sort == z3.BoolSort():
            return z3.BoolVal(bool(x))
        if sort == z3.IntSort() and isinstance(x, (int, bool)):
            return z3.IntVal(int(x))
        if sort == z3.IntSort() and isinstance(x, float) and x == int(x):
            return z3.IntVal(int(x))
        if sort == z3.RealSort() and isinstance(x, (int, float, bool)):
            if isinstance(x, float):
                from fractions import Fraction
                f = Fraction(x)
                return z3.RealVal(f.numerator) / z3.RealVal(f.denominator) \
                    if f.denominator != 1 else z3.RealVal(f.numerator)
            return z3.RealVal(int(x))
        if sort == z3.StringSort() and isinstance(x, str):
            return z3.StringVal(x)
        if is_usort(sort) and isinstance(x, str):
            return str_const(sort, x)
        raise OutOfSubset('cannot coerce %r to %s' % (x, sort))
    if isinstance(v, OptV):
        # caller has checked not-None
        return coerce_term(v.val, sort)
    raise OutOfSubset('cannot coerce %r to %s' % (v, sort))


_strconsts = {}


def str_const(sort, s):
    """String literals used where strings are only compared (sort Str): one
    distinct constant per literal; distinctness asserted by the executor."""
    key = (sort.name(), s)
    if key not in _strconsts:
        _strconsts[key] = z3.Const('str_%s_%s' % (sort.name(), s), sort)
    return _strconsts[key]


def str_const_axioms():
    by = {}
    for (sn, s), c in _strconsts.items():
        by.setdefault(sn, []).append(c)
    out = []
    for sn, cs in by.items():
        cs = cs + [none_of(cs[0].sort())]
        if len(cs) > 1:
            out.append(z3.Distinct(*cs))
    return out


def type_of_val(v):
    """Best-effort type of a value (used by havoc of locals and ite)."""
    v0 = v
    if isinstance(v, Loc):
        return v.T
    if isinstance(v, ZV):
        return TScalar(v.t.sort())
    if isinstance(v, SetV):
        return TSet(v.K)
    if isinstance(v, DictV):
        return TDict(v.K, v.V)
    if isinstance(v, ListV):
        return TList(v.E)
    if isinstance(v, OptV):
        return TOpt(v.T)
    if isinstance(v, TupV):
        return TTuple([type_of_val(x) for x in v.items], v.cls)
    if isinstance(v, Con):
        x = v.v
        if isinstance(x, bool):
            return TBool
        if isinstance(x, int):
            return TInt
        if isinstance(x, float):
            return TReal
        if isinstance(x, str):
            return TStr
    raise OutOfSubset('no type for %r' % (v0,))


def ite(c, a, b):
    """Leafwise if-then-else of two values of compatible type."""
    a, b = deref(a), deref(b)
    if z3.is_true(c):
        return a
    if z3.is_false(c):
        return b
    if isinstance(a, Con) and isinstance(b, Con) and a.v is b.v:
        return a
    # choose the type from whichever side has one
    T = None
    for x in (a, b):
        if not (isinstance(x, Con) and x.v is None):
            try:
                T = type_of_val(x)
                break
            except OutOfSubset:
                pass
    if T is None:
        raise OutOfSubset('ite of %r and %r' % (a, b))
    if isinstance(T, TScalar) and not is_usort(T.sort) and (
            (isinstance(a, Con) and a.v is None) or (isinstance(b, Con) and b.v is None)):
        T = TOpt(T)
    if isinstance(T, TScalar) and T.sort == z3.IntSort():
        # int/real mixing
        for x in (a, b):
            if isinstance(x, ZV) and x.t.sort() == z3.RealSort():
                T = TReal
            if isinstance(x, Con) and isinstance(x.v, float):
                T = TReal
    la, lb = T.to_leaves(a), T.to_leaves(b)
    return T.from_leaves([z3.If(c, x, y) for x, y in zip(la, lb)])


def is_container(v):
    return isinstance(v, (SetV, DictV, ListV, Loc))


def _has_ite(t):
    seen = set()
    stack = [t]
    while stack:
        f = stack.pop()
        if f.get_id() in seen:
            continue
        seen.add(f.get_id())
        if z3.is_app(f):
            if f.decl().kind() == z3.Z3_OP_ITE or z3.is_and(f) or z3.is_or(f) or z3.is_not(f) \
                    or z3.is_eq(f) or z3.is_implies(f):
                return True
            stack.extend(f.children())
    return False


def forall(vs, body, patterns=None):
    """ForAll with the given trigger patterns, dropping patterns z3 rejects
    (containing if-then-else / connectives); without a usable pattern z3 picks."""
    good = []
    for p in (patterns or []):
        try:
            if z3.is_app(p) and p.decl().kind() == z3.Z3_OP_UNINTERPRETED and p.decl().name() == '':
                continue
        except Exception:
            pass
        parts = p.children() if (hasattr(p, 'children') and getattr(p, 'is_multipattern', False)) else [p]
        try:
            if any(_has_ite(x) for x in ([p] if not isinstance(p, z3.PatternRef) else [])):
                continue
        except Exception:
            continue
        good.append(p)
    if good:
        try:
            return z3.ForAll(vs, body, patterns=good)
        except z3.Z3Exception:
            pass
    return z3.ForAll(vs, body)
