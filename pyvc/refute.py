"""Finite-scope refuter.

A false quantified obligation usually comes back `unknown`.  Here the same VC is
re-solved with every uninterpreted sort restricted to `scope` fresh elements
(plus its None constant) and all universal quantifiers over those sorts and over
small integer ranges ground-expanded by us (z3's own handling of finite sorts
stays `unknown`, see memory notes).  A model of the ground instance is a
*candidate* counter-model: quantifiers over integers are expanded on a window
only, so the candidate is confirmed by the native replay, never reported on its
own as a failing input.
"""
import itertools
import z3

from . import vc

INT_WINDOW = range(-1, 5)


def _sorts_in(fs):
    sorts = {}
    seen = set()
    stack = list(fs)
    decls = {}
    while stack:
        f = stack.pop()
        if f.get_id() in seen:
            continue
        seen.add(f.get_id())
        if z3.is_quantifier(f):
            for i in range(f.num_vars()):
                s = f.var_sort(i)
                _note_sort(s, sorts)
            stack.append(f.body())
            continue
        _note_sort(f.sort(), sorts)
        if z3.is_app(f):
            d = f.decl()
            if d.kind() == z3.Z3_OP_UNINTERPRETED:
                decls[d.name()] = d
            stack.extend(f.children())
    return sorts, decls


def _note_sort(s, sorts):
    if s.kind() == z3.Z3_UNINTERPRETED_SORT:
        sorts[s.name()] = s
    elif s.kind() == z3.Z3_ARRAY_SORT:
        _note_sort(s.domain(), sorts)
        _note_sort(s.range(), sorts)


def finite_scope_smt2(smt2, scope=3, timeout_ms=10000, selector=None):
    # parsed into the process's main context (candidate search only: verdicts
    # proper are always produced in fresh contexts)
    fs = list(z3.parse_smt2_string(smt2))
    if selector is not None:
        # keep only the selected goal of the group
        sel = z3.Bool(selector)
        keep = []
        for f in fs:
            if z3.is_implies(f) and z3.is_const(f.arg(0)) and f.arg(0).decl().name().startswith('sel!'):
                if f.arg(0).eq(sel):
                    keep.append(f.arg(1))
                continue
            keep.append(f)
        fs = keep
    r = _finite(fs, scope, timeout_ms, None)
    if r is not None:
        r['ctx'] = None
    return r


def finite_scope(ob, scope=3, timeout_ms=10000):
    hyps = list(ob.hyps)
    fs = hyps + vc.background(hyps + [ob.goal]) + [z3.Not(ob.goal)]
    if vc.uses(fs, set(vc.TRANSCENDENTAL)):
        fs, _ = vc.ackermannize(fs)
    return _finite(fs, scope, timeout_ms, None)


def _finite(fs, scope, timeout_ms, ctx):
    # NNF + skolemisation: remaining quantifiers are universal
    g = z3.Goal()
    for f in fs:
        g.add(f)
    try:
        res = z3.Tactic('snf')(g)
        fs = [f for sub in res for f in sub]
    except z3.Z3Exception:
        pass
    sorts, decls = _sorts_in(fs)
    universe = {}
    extra = []
    for name, s in sorts.items():
        us = [z3.Const('u!%s!%d' % (name, i), s) for i in range(scope)]
        none = z3.Const('None_' + name, s)
        universe[name] = us + [none]
        extra.append(z3.Distinct(*(us + [none])))

    def dom(s):
        if s.kind() == z3.Z3_UNINTERPRETED_SORT:
            return universe[s.name()]
        if s == z3.IntSort():
            return [z3.IntVal(i) for i in INT_WINDOW]
        if s == z3.BoolSort():
            return [z3.BoolVal(True), z3.BoolVal(False)]
        return None

    cache = {}
    exact = [True]

    def expand(f, depth=0):
        k = f.get_id()
        if k in cache:
            return cache[k]
        if z3.is_quantifier(f):
            if not f.is_forall():
                r = f
            else:
                doms = [dom(f.var_sort(i)) for i in range(f.num_vars())]
                if any(f.var_sort(i) == z3.IntSort() for i in range(f.num_vars())):
                    exact[0] = False            # integers expanded on a window only
                if any(d is None for d in doms):
                    exact[0] = False
                    r = z3.BoolVal(True)        # weakening: candidate only
                else:
                    size = 1
                    for d in doms:
                        size *= len(d)
                    if size > 4096:
                        exact[0] = False
                        r = z3.BoolVal(True)
                    else:
                        body = f.body()
                        insts = []
                        # de Bruijn: var 0 is the LAST bound variable
                        for combo in itertools.product(*doms):
                            inst = z3.substitute_vars(body, *reversed(combo))
                            insts.append(expand(inst, depth + 1))
                        r = z3.And(*insts) if insts else z3.BoolVal(True)
        elif z3.is_app(f) and f.num_args() > 0:
            kids = [expand(c, depth) for c in f.children()]
            if any(not a.eq(b) for a, b in zip(kids, f.children())):
                r = f.decl()(*kids)
            else:
                r = f
        else:
            r = f
        cache[k] = r
        return r

    ground = [z3.simplify(expand(f)) for f in fs]
    # closure of the finite universes under the function symbols / free constants
    closure = []
    for name, d in decls.items():
        rs = d.range()
        if d.arity() == 0:
            _closure_const(d(), universe, closure, dom)
            continue
        if rs.kind() != z3.Z3_UNINTERPRETED_SORT:
            continue
        doms = [dom(d.domain(i)) for i in range(d.arity())]
        if any(x is None for x in doms):
            continue
        size = 1
        for x in doms:
            size *= len(x)
        if size > 2000:
            continue
        for combo in itertools.product(*doms):
            closure.append(z3.Or(*[d(*combo) == u for u in universe[rs.name()]]))
    s = z3.Solver()
    s.set('timeout', timeout_ms)
    for f in ground + extra + closure:
        s.add(f)
    r = s.check()
    if r != z3.sat:
        return None
    m = s.model()
    return {'text': str(m), 'model': m, 'scope': scope, 'exact': exact[0]}


def _closure_const(c, universe, out, dom, depth=0):
    """Free constants (and the cells of free arrays) range over the universe."""
    s = c.sort()
    if s.kind() == z3.Z3_UNINTERPRETED_SORT:
        out.append(z3.Or(*[c == u for u in universe[s.name()]]))
    elif s.kind() == z3.Z3_ARRAY_SORT and depth < 3:
        d = dom(s.domain())
        if d is None or len(d) > 8:
            return
        for i in d:
            _closure_const(c[i], universe, out, dom, depth + 1)
