"""Bounded stand-in: the property's native oracle run over an exhaustively
enumerated, stated input space (never counted as proved)."""
import json
import os

from . import check as _check


def run(pid, tier, seed, known):
    from specs import TABLE
    entry = TABLE[pid]
    mod = entry.get('replay')
    skip = [f.get('witness_signature') for f in known if f.get('status', 'open') == 'open'
            and f.get('witness_signature')]
    out = _check.native(mod, {'mode': 'search', 'property': pid, 'obligation': {}, 'seed': seed,
                              'tier': tier, 'skip_signatures': skip}, timeout=600)
    res = {'standins': [{'kind': 'native bounded search of the property oracle',
                         'bound': entry.get('bound') or ('families enumerated by replay/%s.py for the %s tier (see its docstring and families())' % (mod, tier)), 'status': out.get('status'),
                         'tried': out.get('tried')}], 'lines': [], 'violations': 0}
    if out.get('truncated_at'):
        # the enumeration order is fixed (smaller histories first): the bound explored is the
        # first `truncated_at` cases of the stated families, not all of them
        res['standins'][0]['truncated_at'] = out['truncated_at']
        res['standins'][0]['bound'] += ' - CUT after the first %d cases of that enumeration' % out['truncated_at']
    if out.get('bound') and not entry.get('bound'):
        res['standins'][0]['bound'] = out['bound']
    if out.get('status') == 'reproduced':
        ob = {'name': 'bounded[%s]' % pid, 'kind': 'bounded', 'role': 'prop', 'result': 'native',
              'contract': None}
        path = _check.write_replay(pid, ob, out)
        res['lines'].append('VIOLATION property=%s replay=%s' % (pid, path))
        res['violations'] = 1
    elif out.get('status') in ('error', 'timeout'):
        res['error'] = out.get('detail')
        res['lines'].append('CHECKER-ERROR bounded stand-in: %s' % str(out.get('detail'))[:200])
    return res
