"""Shared theories used by the sidecar specs of the stateful classes:
tuple sorts, argument packs, the per-activation call log, weak references,
class-level attributes (`__events__`, class_attr), open calls and the rely.
"""
import ast
import z3

from .sym import (Val, Con, ZV, TupV, SetV, DictV, ListV, OptV, StrV, Loc, NONE,
                  Type, TScalar, TInt, TReal, TBool, TStr, TSet, TDict, TList,
                  TTuple, TOpt, OutOfSubset, deref, coerce_term, ite, usort,
                  none_of, is_usort, type_of_val, TSort, str_const)
from . import sym, prelude
from .exec import (PyRaise, ExcV, OpenFn, BoundMethod, Builtin, ClassV, StarPack,
                   ClassLevel, Closure, Frame)

# ------------------------------------------------------------------ tuple sorts

_tuple_sorts = {}


class TTupleSort(TScalar):
    """A Python tuple of fixed shape stored as ONE scalar (z3 datatype), so that
    it can be a set element / dict key / list element."""

    def __init__(self, name, fields):
        if name not in _tuple_sorts:
            dt = z3.Datatype(name)
            dt.declare('mk_' + name, *[(fn, T.sort) for fn, T in fields])
            _tuple_sorts[name] = dt.create()
        self.dt = _tuple_sorts[name]
        self.fields = fields
        self.name = name
        super().__init__(self.dt)
        _by_sort[self.dt.name()] = self

    def make(self, items):
        return getattr(self.dt, 'mk_' + self.name)(
            *[coerce_term(x, T.sort) for x, (fn, T) in zip(items, self.fields)])

    def unpack(self, t):
        return [T.from_leaves([getattr(self.dt, fn)(t)]) for fn, T in self.fields]

    def to_leaves(self, v):
        v = deref(v)
        if isinstance(v, TupV):
            return [self.make(v.items)]
        return [coerce_term(v, self.sort)]


_by_sort = {}


def tuple_sort_of(sort):
    return _by_sort.get(sort.name())


# patch coerce_term / iteration for tuple sorts
_orig_coerce = sym.coerce_term


def _coerce(v, sort):
    v0 = deref(v)
    ts = _by_sort.get(sort.name()) if sort.kind() == z3.Z3_DATATYPE_SORT else None
    if ts is not None and isinstance(v0, TupV):
        return ts.make(v0.items)
    if sort.kind() == z3.Z3_UNINTERPRETED_SORT and isinstance(v0, ZV) \
            and v0.t.sort() != sort and is_usort(v0.t.sort()):
        inj = injection(v0.t.sort(), sort)
        if inj is not None:
            return inj(v0.t)
        back = _injections.get((sort.name(), v0.t.sort().name()))
        if back is not None:
            return back[1](v0.t)       # projection (partial inverse of the embedding)
    if sort.kind() == z3.Z3_UNINTERPRETED_SORT and isinstance(v0, TupV) and sort.name() == 'ArgPack':
        return make_pack(v0.items)
    if sort.kind() == z3.Z3_UNINTERPRETED_SORT and isinstance(v0, Con) \
            and isinstance(v0.v, dict) and not v0.v and sort.name() == 'KwPack':
        return EMPTY_KW
    if sort.kind() == z3.Z3_UNINTERPRETED_SORT and sort.name() == 'Type' and type(v0).__name__ == 'ClassV':
        return _pr.class_term(None, v0)
    if sort.kind() == z3.Z3_UNINTERPRETED_SORT and sort.name() in FNREF_SORTS and \
            type(v0).__name__ == 'Closure' and getattr(v0.fn, '_qual', None):
        # a module-level function used as a value: one constant per function
        c = z3.Const('fn_' + v0.fn._qual.replace('.', '_'), sort)
        FNREFS.setdefault(sort.name(), {})[v0.fn._qual] = c
        return c
    return _orig_coerce(v, sort)


FNREF_SORTS = set()      # sorts of callables that module-level functions may be stored as
FNREFS = {}


def fnref_axioms():
    ax = []
    for sn, d in FNREFS.items():
        cs = list(d.values())
        if len(cs) > 1:
            ax.append(z3.Distinct(*cs))
        for c in cs:
            ax.append(c != none_of(c.sort()))
    return ax


sym.coerce_term = _coerce
import pyvc.exec as _ex      # noqa: E402
import pyvc.prelude as _pr   # noqa: E402
import pyvc.spec as _sp      # noqa: E402
import pyvc.loops as _lp     # noqa: E402
for _m in (_ex, _pr, _sp, _lp):
    if hasattr(_m, 'coerce_term'):
        _m.coerce_term = _coerce


# ------------------------------------------------------------------- injections

_injections = {}     # (from, to) -> (inj, prj)


def declare_injection(src, dst):
    """Objects of sort `src` may be used where sort `dst` is expected (a
    component as a handler): injective embedding with a partial inverse."""
    key = (src, dst)
    if key not in _injections:
        S, D = usort(src), usort(dst)
        inj = z3.Function('as_%s_%s' % (dst, src), S, D)
        prj = z3.Function('un_%s_%s' % (dst, src), D, S)
        _injections[key] = (inj, prj)
    return _injections[key]


def injection(src_sort, dst_sort):
    r = _injections.get((src_sort.name(), dst_sort.name()))
    return r[0] if r else None


EXTRA_AXIOMS = []        # callables: formulas -> [axioms] (registered by spec modules)
_class_of_sort = {}      # sort name -> repo class qualname


def declare_class_of(sort_name, qual):
    _class_of_sort[sort_name] = qual


def typeof_axioms(formulas):
    """type(x) is a class (never None) for every object x."""
    from .vc import uses
    ax = []
    Ty = usort('Type')
    for sn in list(sym._sorts):
        name = 'type_of_' + sn
        if uses(formulas, {name}):
            S = usort(sn)
            f = z3.Function(name, S, Ty)
            x = z3.Const('tx', S)
            ax.append(z3.ForAll([x], z3.Implies(x != none_of(S), f(x) != none_of(Ty)),
                                patterns=[f(x)]))
            if sn in _class_of_sort:
                from .exec import ClassV
                ct = prelude.class_term(None, ClassV(_class_of_sort[sn]))
                # an object of a class is an instance of that class or of a subclass
                ax.append(z3.ForAll([x], z3.Implies(x != none_of(S), prelude.desc(ct, f(x))),
                                    patterns=[f(x)]))
    for fn in EXTRA_AXIOMS:
        ax += fn(formulas)
    return ax


def injection_axioms():
    ax = []
    kinds = {}
    for (src, dst), (inj, prj) in _injections.items():
        S, D = usort(src), usort(dst)
        x = z3.Const('ix', S)
        kind = z3.Function('kind_' + dst, D, z3.IntSort())
        k = kinds.setdefault(dst, [])
        k.append(src)
        ax.append(z3.ForAll([x], z3.And(prj(inj(x)) == x,
                                        z3.Implies(x != none_of(S), kind(inj(x)) == len(k)),
                                        (inj(x) == none_of(D)) == (x == none_of(S))),
                            patterns=[inj(x)]))
        # type of the embedded object is the type of the object
        ts = z3.Function('type_of_' + src, S, usort('Type'))
        td = z3.Function('type_of_' + dst, D, usort('Type'))
        ax.append(z3.ForAll([x], td(inj(x)) == ts(x), patterns=[inj(x)]))
    return ax


# ---------------------------------------------------------------- argument packs

ArgPack = usort('ArgPack')
KwPack = usort('KwPack')
EMPTY_KW = z3.Const('kw_empty', KwPack)
_packs = {}


def make_pack(items):
    """Positional arguments as one opaque value; injective per signature."""
    terms = []
    flat = []
    for it in items:
        it = deref(it)
        if isinstance(it, TupV):
            # a vector argument travels as its entries (class tag in the signature)
            flat.append(Con('<%s:%d>' % ((it.cls or 'tuple').split('.')[-1], len(it.items))))
            flat.extend(it.items)
        else:
            flat.append(it)
    for it in flat:
        it = deref(it)
        if isinstance(it, Con) and isinstance(it.v, str):
            terms.append(str_const(usort('Str'), it.v))
        elif isinstance(it, Con) and it.v is None:
            terms.append(none_of(usort('Obj')))
        elif isinstance(it, ZV):
            terms.append(it.t)
        elif isinstance(it, Con) and isinstance(it.v, (int, float)):
            terms.append(coerce_term(it, z3.RealSort()))
        else:
            raise OutOfSubset('cannot pack %r' % (it,))
    sig = '_'.join(t.sort().name().replace(' ', '') for t in terms) or 'empty'
    if sig not in _packs:
        f = z3.Function('pack_' + sig, *[t.sort() for t in terms], ArgPack) if terms else None
        un = [z3.Function('unpack_%s_%d' % (sig, i), ArgPack, t.sort())
              for i, t in enumerate(terms)]
        _packs[sig] = (f, un, [t.sort() for t in terms])
    f, un, _ = _packs[sig]
    if f is None:
        return z3.Const('pack_empty', ArgPack)
    return f(*terms)


def pack_axioms():
    ax = []
    sigid = z3.Function('pack_sig', ArgPack, z3.IntSort())
    for n, (sig, (f, un, sorts)) in enumerate(sorted(_packs.items())):
        if f is None:
            ax.append(sigid(z3.Const('pack_empty', ArgPack)) == n)
            continue
        xs = [z3.Const('px%d' % i, s) for i, s in enumerate(sorts)]
        conj = [u(f(*xs)) == x for u, x in zip(un, xs)] + [sigid(f(*xs)) == n]
        ax.append(z3.ForAll(xs, z3.And(*conj), patterns=[f(*xs)]))
    return ax


def unpack(pack_t, sorts):
    """Destructure a pack known to have the given signature."""
    sig = '_'.join(s.name().replace(' ', '') for s in sorts)
    if sig not in _packs:
        dummy = [ZV(z3.Const('d%d' % i, s)) for i, s in enumerate(sorts)]
        make_pack(dummy)
    f, un, _ = _packs[sig]
    return [u(pack_t) for u in un], f


# -------------------------------------------------------------------- call log

Method = usort('Method')
_call_dt = None
_call_ctors = {}


def declare_calls(ctors):
    """ctors: {name: [(field, sort), ...]} -> the Call datatype (once per process)."""
    global _call_dt
    if _call_dt is not None:
        for k in ctors:
            if k not in _call_ctors:
                raise OutOfSubset('Call datatype already created without ' + k)
        return _call_dt
    dt = z3.Datatype('Call')
    for name, fields in ctors.items():
        dt.declare('call_' + name, *[(name + '_' + fn, s) for fn, s in fields])
        _call_ctors[name] = fields
    _call_dt = dt.create()
    return _call_dt


def call_term(name, *args):
    return getattr(_call_dt, 'call_' + name)(*args)


def TCall():
    return TScalar(_call_dt)


def log_get(X):
    if 'log' not in X.ghost:
        X.ghost['log'] = TList(TCall()).fresh('log0')
        X.assume(X.ghost['log'].n >= 0)
    return X.ghost['log']


def log_append(X, c):
    lg = log_get(X)
    X.ghost['log'] = ListV(lg.E, lg.n + 1, [z3.Store(lg.ats[0], lg.n, c)])
    cnt = cnt_get(X)
    X.ghost['cnt'] = z3.Store(cnt, c, cnt[c] + 1)


def cnt_get(X):
    """Multiset view of the log: how often each call was made."""
    if 'cnt' not in X.ghost:
        X.ghost['cnt'] = z3.Const('cnt0', z3.ArraySort(_call_dt, z3.IntSort()))
    return X.ghost['cnt']


# ------------------------------------------------------------ class-level facts

Type_ = usort('Type')
Str = usort('Str')


def class_attr(T, name):
    """getattr(cls, name): the function object a class maps a method name to."""
    return z3.Function('class_attr', Type_, Str, Method)(T, name)


def ev_dom(T):
    return z3.Function('ev_dom', Type_, z3.ArraySort(Str, z3.BoolSort()))(T)


def ev_val(T):
    return z3.Function('ev_val', Type_, z3.ArraySort(Str, Str))(T)


def has_events(T):
    return z3.Function('has_events', Type_, z3.BoolSort())(T)


def events_of(X, obj_t):
    """obj.__events__ as a dict value (class-level, immutable while registered: T4)."""
    T = prelude.type_of(X, obj_t)
    return DictV(TScalar(Str), TScalar(Str), ev_dom(T), [ev_val(T)])


# ------------------------------------------------------------------- weak refs

Ref = usort('Ref')
Handler = usort('Handler')


def wref(h):
    return z3.Function('wref', Handler, Ref)(h)


def referent(r):
    return z3.Function('referent', Ref, Handler)(r)


def weakref_axioms():
    h = z3.Const('wh', Handler)
    return [z3.ForAll([h], z3.And(referent(wref(h)) == h,
                                  (wref(h) == none_of(Ref)) == (h == none_of(Handler))),
                      patterns=[wref(h)])]


def alive_get(X):
    if 'alive' not in X.ghost:
        X.ghost['alive'] = z3.Const('alive0', z3.ArraySort(Handler, z3.BoolSort()))
    return X.ghost['alive']


# ------------------------------------------------------------------ open calls

OPEN_RAISES = ['$OtherException']


def open_site(X, call, node, result_T=None, rely=None, raises=None, reenter=True,
              name='callback', check_wf=None):
    """One call into code the verifier cannot see.

    * appends `call` to the per-activation log;
    * if `reenter`: owes wf of the rely objects before (wf-at-callback), havocs
      their client-mutable state, assumes wf after - the callee may perform any
      finite sequence of public operations (T5);
    * returns an unconstrained value of `result_T`, or raises (one path per
      exception category)."""
    spec = X.spec
    line = getattr(node, 'lineno', 0)
    X.events.append(('open', name, call))
    log_append(X, call)
    rely = rely if rely is not None else spec.rely_objects(X)
    if check_wf is None:
        check_wf = reenter
    site = spec.site_config(X, node)
    if check_wf and not reenter:
        # the callback may OBSERVE the objects (so their invariants must hold
        # here) but is assumed not to modify them
        from .spec import oblige_split
        for obj in rely:
            for cname, role, f in spec.wf_clauses(X, obj, site.get('wf_only')):
                oblige_split(X, '%s:wf-at-callback[%s].%s' % (X.fn_name, name, cname), f,
                             'wf-at-callback', 'aux', assume_after=True)
    if reenter:
        for obj in rely:
            from .spec import oblige_split
            for cname, role, f in spec.wf_clauses(X, obj):
                oblige_split(X, '%s:wf-at-callback[%s].%s' % (X.fn_name, name, cname), f,
                             'wf-at-callback', 'aux', assume_after=True)
        snap = X.snapshot()
        for obj in rely:
            spec.havoc_client_state(X, obj)
        spec.havoc_environment(X)
        X.old_stack.append(snap)
        try:
            for obj in rely:
                X.assume(spec.wf_formula(X, obj))
                if 'rely' in site:
                    # site-specific two-state assumption on the callee (listed)
                    for rname, rtext in site['rely']:
                        X.assume(spec.eval_bool(X, rtext, {'self': obj}))
                        spec.note_assumption('site %s: callee satisfies %s (%s)'
                                             % (X.fn_name, rname, rtext))
                else:
                    for extra in spec.rely_extra(X, obj):
                        X.assume(extra)
        finally:
            X.old_stack.pop()
    else:
        spec.note_assumption('callback at %s:%s does not modify the object under verification%s'
                             % (X.fn_name, name, '' if check_wf else
                                ' and does not observe it (invariant broken at the site)'))
    cats = list(raises if raises is not None else spec.open_raise_categories)
    which = X.choose([True] * (1 + len(cats))) if cats else 0
    if which > 0:
        ex = ExcV(cats[which - 1], [], implicit=False, node=node)
        for (ecls, fname), FT in getattr(spec, 'exc_field_types', {}).items():
            if ecls == ex.cls:
                ex.fields[fname] = X.fresh(FT, 'exc_' + fname)
        ex.from_open = name
        raise PyRaise(ex)
    if result_T is None:
        return NONE
    r = X.fresh(result_T, 'ret_' + name)
    if isinstance(r, ZV):
        spec.note_allocated(X, r.t)
    return r
