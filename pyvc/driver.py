"""Check driver: contracts -> obligations -> verdict -> evidence.

Exit codes: 0 held / 1 violation (replayed, or refuted prop obligation) /
2 undecided / 3 checker error.  `unknown`, timeouts and tracebacks are never
mapped to a violation.
"""
import importlib
import json
import multiprocessing as mp
import os
import sys
import time
import traceback

import z3

VERIF = os.path.dirname(os.path.dirname(os.path.abspath(__file__)))

# property -> spec modules (register(spec)) and replay module
PROPERTY_SPECS = {}


def property_table():
    from specs import TABLE
    return TABLE


def build_spec(modnames):
    from . import front, spec as S
    repo = front.Repo()
    sp = S.Spec(repo)
    for mn in modnames:
        mod = importlib.import_module('specs.' + mn)
        mod.register(sp)
    return sp


_WORKER_SPEC = {}


def _worker_spec(modnames):
    key = tuple(modnames)
    if key not in _WORKER_SPEC:
        _WORKER_SPEC[key] = build_spec(modnames)
    return _WORKER_SPEC[key]


def model_value(m, t):
    v = m.eval(t, model_completion=True)
    if z3.is_rational_value(v):
        return '%s/%s' % (v.numerator_as_long(), v.denominator_as_long()) \
            if v.denominator_as_long() != 1 else str(v.numerator_as_long())
    if z3.is_algebraic_value(v):
        return 'approx:' + v.as_decimal(12).rstrip('?')
    if z3.is_int_value(v):
        return str(v.as_long())
    if z3.is_true(v):
        return True
    if z3.is_false(v):
        return False
    return str(v)


def witness_of(X_env, model):
    """Parameter values of the counter-model, JSON-able."""
    from .sym import ZV, TupV, Con, OptV, deref, ListV, SetV, DictV
    out = {}

    def conv(v):
        v = deref(v)
        if isinstance(v, ZV):
            return model_value(model, v.t)
        if isinstance(v, TupV):
            return {'cls': v.cls, 'items': [conv(x) for x in v.items]}
        if isinstance(v, Con):
            return {'con': repr(v.v)}
        if isinstance(v, OptV):
            if z3.is_true(model.eval(v.isnone, model_completion=True)):
                return None
            return conv(v.val)
        if isinstance(v, ListV):
            n = model.eval(v.n, model_completion=True)
            try:
                n = n.as_long()
            except Exception:
                return {'list': '?'}
            if n > 12:
                return {'list': 'len %d' % n}
            return {'list': [conv(v.at(z3.IntVal(i))) for i in range(max(n, 0))]}
        return repr(type(v).__name__)
    for k, v in X_env.items():
        try:
            out[k] = conv(v)
        except Exception as e:      # never let reporting break a verdict
            out[k] = 'unprintable: %r' % (e,)
    return out


def run_contract(args):
    """Worker: all paths of one contract, discharged in-process."""
    modnames, key, timeout_ms, seed, opts = args
    from . import spec as S, vc, front
    from .sym import OutOfSubset
    t0 = time.time()
    res = {'key': key, 'obligations': [], 'error': None, 'paths': 0, 'function': None,
           'assumptions': [], 'exits': {}}
    try:
        sp = _worker_spec(modnames)
        ct = sp.contracts[key]
        run = S.FunctionRun(sp, key, inline_all=opts.get('inline_all', False))
        obs = run.run()
        res['paths'] = run.paths
        for kind, _ in run.exits:
            k = kind.split(':')[0] if kind.startswith('raise') else kind
            res['exits'][kind] = res['exits'].get(kind, 0) + 1
        m, fn = sp.function_for(key)
        res['function'] = front.describe(m, fn)
        res['assumptions'] = sorted(run.assumptions_used)
        env_cache = None
        for ob in obs:
            ob.model_obj = None
            if z3.is_true(ob.goal):
                ob.result, ob.seconds, ob.backend, ob.reason = 'proved', 0.0, 'trivial', ''
                ob.smt2 = ''
                continue
            fs, _tab = vc.formulas_of(ob)
            s_ = z3.Solver()
            s_.set('timeout', timeout_ms)
            s_.set('random_seed', seed)
            for f in fs:
                s_.add(f)
            t1 = time.time()
            try:
                r = str(s_.check())
                ob.reason = s_.reason_unknown() if r == 'unknown' else ''
            except z3.Z3Exception as e:
                r, ob.reason = 'error', repr(e)
            ob.seconds = time.time() - t1
            ob.backend = 'z3-%s' % z3.get_version_string()
            ob.result = {'unsat': 'proved', 'sat': 'sat', 'unknown': 'unknown',
                         'error': 'error'}[r]
            ob.smt2 = ''
            if ob.result != 'proved':
                ob.smt2 = s_.to_smt2()
                if ob.result == 'sat':
                    ob.model_obj = s_.model()
        for ob in obs:
            rec = {'name': ob.name, 'kind': ob.kind, 'role': ob.role, 'result': ob.result,
                   'seconds': round(ob.seconds, 4), 'backend': ob.backend, 'line': ob.where,
                   'path': list(ob.decisions), 'reason': ob.reason, 'contract': key}
            if ob.info:
                rec['info'] = ob.info
            if ob.result in ('sat', 'unknown') and ob.kind != 'canary':
                rec['smt2_head'] = ob.smt2[:1500]
                rec['params'] = shapes_of(run_env(sp, run, key))
                if ob.result == 'sat' and ob.kind != 'canary':
                    try:
                        model = ob.model_obj
                        if model is not None:
                            rec['witness'] = witness_of(run_env(sp, run, key), model)
                            rec['model'] = str(model)[:3000]
                    except Exception as e:
                        rec['witness_error'] = repr(e)
                elif opts.get('refute', True) and ob.kind != 'canary':
                    from . import refute
                    try:
                        fm = refute.finite_scope(ob, scope=opts.get('scope', 3),
                                                 timeout_ms=timeout_ms)
                        if fm is not None:
                            rec['result'] = 'refuted-finite-scope'
                            rec['model'] = fm['text'][:4000]
                            rec['scope'] = fm['scope']
                            try:
                                rec['witness'] = witness_of(run_env(sp, run, key), fm['model'])
                            except Exception as e:
                                rec['witness_error'] = repr(e)
                    except Exception as e:
                        rec['refute_error'] = repr(e)
            if opts.get('keep_smt2'):
                rec['smt2'] = ob.smt2
            res['obligations'].append(rec)
    except OutOfSubset as e:
        res['error'] = 'out-of-subset: %s' % e
    except S.SpecError as e:
        res['error'] = 'spec-error: %s' % e
    except front.FrontError as e:
        res['error'] = 'front-error: %s' % e
    except Exception as e:
        res['error'] = 'engine-crash: %r\n%s' % (e, traceback.format_exc()[-1500:])
    res['wall_s'] = round(time.time() - t0, 3)
    return res


def shapes_of(env):
    from .sym import ZV, TupV, Con, deref
    out = {}
    for k, v in env.items():
        v = deref(v)
        if isinstance(v, TupV):
            out[k] = {'cls': v.cls, 'len': len(v.items)}
        elif isinstance(v, Con):
            out[k] = {'con': repr(v.v)}
        elif isinstance(v, ZV):
            out[k] = {'sort': v.t.sort().name()}
        else:
            from .exec import ClassV
            out[k] = {'class': v.qual} if isinstance(v, ClassV) else {'other': type(v).__name__}
    return out


def run_env(sp, run, key):
    """Parameter environment of a contract (deterministic names)."""
    from .exec import Executor, Frame
    X = Executor(sp.repo, sp, [])
    ct = sp.contracts[key]
    env = {}
    m, fn = sp.function_for(key)
    a = fn.args
    names = [p.arg for p in a.posonlyargs + a.args] + ([a.vararg.arg] if a.vararg else []) \
        + [p.arg for p in a.kwonlyargs] + ([a.kwarg.arg] if a.kwarg else [])
    from .sym import Type
    for n in names:
        T = ct.params.get(n)
        if T is None:
            continue
        env[n] = T(X, n) if (callable(T) and not isinstance(T, Type)) else X.fresh(T, 'p_' + n)
    return env


def run_all(modnames, keys, timeout_ms, seed, opts, workers=16):
    ctx = mp.get_context('fork')
    jobs = [(modnames, k, timeout_ms, seed, opts) for k in keys]
    if workers <= 1 or len(jobs) == 1:
        return [run_contract(j) for j in jobs]
    with ctx.Pool(min(workers, len(jobs))) as p:
        return p.map(run_contract, jobs, chunksize=max(1, len(jobs) // (workers * 8)))
