"""Check driver: contracts -> obligations -> verdict -> evidence.

Exit codes: 0 held / 1 violation (replayed, or refuted prop obligation) /
2 undecided / 3 checker error.  `unknown`, timeouts and tracebacks are never
mapped to a violation.
"""
import importlib
import json
import multiprocessing as mp
import os
import sys
import time
import traceback

import z3

VERIF = os.path.dirname(os.path.dirname(os.path.abspath(__file__)))

# property -> spec modules (register(spec)) and replay module
PROPERTY_SPECS = {}


def property_table():
    from specs import TABLE
    return TABLE


def build_spec(modnames):
    from . import front, spec as S
    repo = front.Repo()
    sp = S.Spec(repo)
    for mn in modnames:
        mod = importlib.import_module('specs.' + mn)
        mod.register(sp)
    return sp


_WORKER_SPEC = {}


def _worker_spec(modnames):
    key = tuple(modnames)
    if key not in _WORKER_SPEC:
        _WORKER_SPEC[key] = build_spec(modnames)
    return _WORKER_SPEC[key]


def model_value(m, t):
    if isinstance(m, tuple):
        m, ctx = m
        if ctx is not None:
            t = t.translate(ctx)
    v = m.eval(t, model_completion=True)
    if z3.is_rational_value(v):
        return '%s/%s' % (v.numerator_as_long(), v.denominator_as_long()) \
            if v.denominator_as_long() != 1 else str(v.numerator_as_long())
    if z3.is_algebraic_value(v):
        return 'approx:' + v.as_decimal(12).rstrip('?')
    if z3.is_int_value(v):
        return str(v.as_long())
    if z3.is_true(v):
        return True
    if z3.is_false(v):
        return False
    return str(v)


def witness_of(X_env, model):
    """Parameter values of the counter-model, JSON-able."""
    from .sym import ZV, TupV, Con, OptV, deref, ListV, SetV, DictV
    out = {}

    def conv(v):
        v = deref(v)
        if isinstance(v, ZV):
            return model_value(model, v.t)
        if isinstance(v, TupV):
            return {'cls': v.cls, 'items': [conv(x) for x in v.items]}
        if isinstance(v, Con):
            return {'con': repr(v.v)}
        if isinstance(v, OptV):
            if model_value(model, v.isnone) is True:
                return None
            return conv(v.val)
        if isinstance(v, ListV):
            try:
                n = int(model_value(model, v.n))
            except Exception:
                return {'list': '?'}
            if n > 12:
                return {'list': 'len %d' % n}
            return {'list': [conv(v.at(z3.IntVal(i))) for i in range(max(n, 0))]}
        return repr(type(v).__name__)
    for k, v in X_env.items():
        try:
            out[k] = conv(v)
        except Exception as e:      # never let reporting break a verdict
            out[k] = 'unprintable: %r' % (e,)
    return out


def gen_contract(args):
    """Phase 1 worker: all paths of one contract -> obligations as SMT-LIB text."""
    modnames, key, opts = args
    from . import spec as S, vc, front
    from .sym import OutOfSubset
    t0 = time.time()
    res = {'key': key, 'obligations': [], 'error': None, 'paths': 0, 'function': None,
           'assumptions': [], 'exits': {}}
    try:
        sp = _worker_spec(modnames)
        run = S.FunctionRun(sp, key, inline_all=opts.get('inline_all', False))
        obs = run.run()
        res['paths'] = run.paths
        for kind, _ in run.exits:
            res['exits'][kind] = res['exits'].get(kind, 0) + 1
        m, fn = sp.function_for(key)
        res['function'] = front.describe(m, fn)
        res['assumptions'] = sorted(run.assumptions_used) + list(sp.assumptions)
        for ob in obs:
            rec = {'name': ob.name, 'kind': ob.kind, 'role': ob.role, 'line': ob.where,
                   'path': list(ob.decisions), 'contract': key, 'info': ob.info or None}
            if z3.is_true(ob.goal):
                rec.update(result='proved', seconds=0.0, backend='trivial', reason='', smt2='')
            else:
                fs, _tab = vc.formulas_of(ob)
                s0 = z3.Solver()
                for f in fs:
                    s0.add(f)
                rec['smt2'] = s0.to_smt2()
            res['obligations'].append(rec)
    except OutOfSubset as e:
        res['error'] = 'out-of-subset: %s' % e
    except S.SpecError as e:
        res['error'] = 'spec-error: %s' % e
    except front.FrontError as e:
        res['error'] = 'front-error: %s' % e
    except Exception as e:
        res['error'] = 'engine-crash: %r\n%s' % (e, traceback.format_exc()[-1500:])
    res['wall_s'] = round(time.time() - t0, 3)
    return res


def solve_obligation(args):
    """Phase 2 worker: one obligation, in a FRESH z3 context (verdicts must not
    depend on what was solved before in the process); `unknown` is retried with
    another seed before it counts as undecided; then the finite-scope refuter."""
    modnames, rec, timeout_ms, seed, opts = args
    if rec.get('result') == 'proved':
        return rec
    t1 = time.time()
    attempts = [(seed, timeout_ms), (seed + 1, max(1000, timeout_ms // 2))]
    if rec['kind'] == 'canary':
        # must NOT be provable; two seconds are plenty for an inconsistency to show
        attempts = [(seed, min(timeout_ms, 2000))]
    r, reason, n_att = 'unknown', '', 0
    s_ = ctx = None
    for sd, to in attempts:
        n_att += 1
        ctx = z3.Context()
        s_ = z3.Solver(ctx=ctx)
        try:
            s_.from_string(rec['smt2'])
            s_.set('timeout', to)
            s_.set('random_seed', sd)
            r = str(s_.check())
            reason = s_.reason_unknown() if r == 'unknown' else ''
        except z3.Z3Exception as e:
            r, reason = 'error', repr(e)
        if r != 'unknown' or rec['kind'] == 'canary':
            break
    rec['seconds'] = round(time.time() - t1, 4)
    rec['backend'] = 'z3-%s' % z3.get_version_string()
    rec['reason'] = reason
    rec['attempts'] = n_att
    rec['result'] = {'unsat': 'proved', 'sat': 'sat', 'unknown': 'unknown', 'error': 'error'}[r]
    if rec['result'] == 'proved':
        rec['smt2'] = ''
        return rec
    if rec['kind'] == 'canary':
        rec['smt2'] = ''
        return rec
    rec['smt2_head'] = rec['smt2'][:1500]
    try:
        sp = _worker_spec(modnames)
        env = run_env(sp, None, rec['contract'])
        rec['params'] = shapes_of(env)
    except Exception as e:
        env = {}
        rec['witness_error'] = repr(e)
    if rec['result'] == 'sat':
        try:
            model = (s_.model(), ctx)
            rec['witness'] = witness_of(env, model)
            rec['model'] = str(model[0])[:3000]
        except Exception as e:
            rec['witness_error'] = repr(e)
    elif rec['result'] == 'unknown' and opts.get('refute', True):
        from . import refute
        try:
            fm = refute.finite_scope_smt2(rec['smt2'], scope=opts.get('scope', 3),
                                          timeout_ms=min(timeout_ms, 6000))
            if fm is not None:
                rec['result'] = 'refuted-finite-scope' if fm['exact'] else 'candidate-finite-scope'
                rec['model'] = fm['text'][:4000]
                rec['scope'] = fm['scope']
                try:
                    rec['witness'] = witness_of(env, (fm['model'], fm['ctx']))
                except Exception as e:
                    rec['witness_error'] = repr(e)
        except Exception as e:
            rec['refute_error'] = repr(e)
    if not opts.get('keep_smt2'):
        rec['smt2'] = ''
    return rec


def shapes_of(env):
    from .sym import ZV, TupV, Con, deref
    out = {}
    for k, v in env.items():
        v = deref(v)
        if isinstance(v, TupV):
            out[k] = {'cls': v.cls, 'len': len(v.items)}
        elif isinstance(v, Con):
            out[k] = {'con': repr(v.v)}
        elif isinstance(v, ZV):
            out[k] = {'sort': v.t.sort().name()}
        else:
            from .exec import ClassV
            out[k] = {'class': v.qual} if isinstance(v, ClassV) else {'other': type(v).__name__}
    return out


def run_env(sp, run, key):
    """Parameter environment of a contract (deterministic names)."""
    from .exec import Executor, Frame
    X = Executor(sp.repo, sp, [])
    ct = sp.contracts[key]
    env = {}
    m, fn = sp.function_for(key)
    a = fn.args
    names = [p.arg for p in a.posonlyargs + a.args] + ([a.vararg.arg] if a.vararg else []) \
        + [p.arg for p in a.kwonlyargs] + ([a.kwarg.arg] if a.kwarg else [])
    from .sym import Type
    for n in names:
        T = ct.params.get(n)
        if T is None:
            continue
        env[n] = T(X, n) if (callable(T) and not isinstance(T, Type)) else X.fresh(T, 'p_' + n)
    return env


def run_all(modnames, keys, timeout_ms, seed, opts, workers=16):
    ctx = mp.get_context('fork')
    jobs = [(modnames, k, opts) for k in keys]
    import sys
    t0 = time.time()
    with ctx.Pool(workers) as p:
        results = p.map(gen_contract, jobs, chunksize=max(1, len(jobs) // (workers * 8)))
        if os.environ.get('VERIF_PROFILE'):
            sys.stderr.write('phase1 %.1fs\n' % (time.time() - t0))
        flat = [(modnames, rec, timeout_ms, seed, opts)
                for r in results for rec in r['obligations']]
        # hardest first is unknown in advance: plain order, small chunks
        solved = p.map(solve_obligation, flat, chunksize=max(1, min(16, len(flat) // (workers * 4) or 1)))
    if os.environ.get('VERIF_PROFILE'):
        sys.stderr.write('phase1+2 %.1fs obligations=%d\n' % (time.time() - t0, len(flat)))
    it = iter(solved)
    for r in results:
        r['obligations'] = [next(it) for _ in r['obligations']]
    return results
