"""Check driver: contracts -> obligations -> verdict -> evidence.

Exit codes: 0 held / 1 violation (replayed, or refuted prop obligation) /
2 undecided / 3 checker error.  `unknown`, timeouts and tracebacks are never
mapped to a violation.
"""
import importlib
import json
import multiprocessing as mp
import os
import sys
import time
import traceback

import z3

VERIF = os.path.dirname(os.path.dirname(os.path.abspath(__file__)))

# property -> spec modules (register(spec)) and replay module
PROPERTY_SPECS = {}


def property_table():
    from specs import TABLE
    return TABLE


def build_spec(modnames):
    from . import front, spec as S
    repo = front.Repo()
    sp = S.Spec(repo)
    for mn in modnames:
        mod = importlib.import_module('specs.' + mn)
        mod.register(sp)
    return sp


_WORKER_SPEC = {}


def _worker_spec(modnames):
    key = tuple(modnames)
    if key not in _WORKER_SPEC:
        _WORKER_SPEC[key] = build_spec(modnames)
    return _WORKER_SPEC[key]


def model_value(m, t):
    if isinstance(m, tuple):
        m, ctx = m
        if ctx is not None:
            t = t.translate(ctx)
    v = m.eval(t, model_completion=True)
    if z3.is_rational_value(v):
        return '%s/%s' % (v.numerator_as_long(), v.denominator_as_long()) \
            if v.denominator_as_long() != 1 else str(v.numerator_as_long())
    if z3.is_algebraic_value(v):
        return 'approx:' + v.as_decimal(12).rstrip('?')
    if z3.is_int_value(v):
        return str(v.as_long())
    if z3.is_true(v):
        return True
    if z3.is_false(v):
        return False
    return str(v)


def witness_of(X_env, model):
    """Parameter values of the counter-model, JSON-able."""
    from .sym import ZV, TupV, Con, OptV, deref, ListV, SetV, DictV
    out = {}

    def conv(v):
        v = deref(v)
        if isinstance(v, ZV):
            return model_value(model, v.t)
        if isinstance(v, TupV):
            return {'cls': v.cls, 'items': [conv(x) for x in v.items]}
        if isinstance(v, Con):
            return {'con': repr(v.v)}
        if isinstance(v, OptV):
            if model_value(model, v.isnone) is True:
                return None
            return conv(v.val)
        if isinstance(v, ListV):
            try:
                n = int(model_value(model, v.n))
            except Exception:
                return {'list': '?'}
            if n > 12:
                return {'list': 'len %d' % n}
            return {'list': [conv(v.at(z3.IntVal(i))) for i in range(max(n, 0))]}
        return repr(type(v).__name__)
    for k, v in X_env.items():
        try:
            out[k] = conv(v)
        except Exception as e:      # never let reporting break a verdict
            out[k] = 'unprintable: %r' % (e,)
    return out


def gen_contract(args):
    """Phase 1 worker: all paths of one contract -> obligations as SMT-LIB text."""
    modnames, key, opts = args
    from . import spec as S, vc, front
    from .sym import OutOfSubset
    t0 = time.time()
    res = {'key': key, 'obligations': [], 'error': None, 'paths': 0, 'function': None,
           'assumptions': [], 'exits': {}}
    try:
        sp = _worker_spec(modnames)
        run = S.FunctionRun(sp, key, inline_all=opts.get('inline_all', False))
        obs = run.run()
        res['paths'] = run.paths
        for kind, _ in run.exits:
            res['exits'][kind] = res['exits'].get(kind, 0) + 1
        m, fn = sp.function_for(key)
        res['function'] = front.describe(m, fn)
        res['assumptions'] = sorted(run.assumptions_used) + list(sp.assumptions)
        res['groups'] = []
        trivial = [ob for ob in obs if z3.is_true(ob.goal)]
        real = [ob for ob in obs if not z3.is_true(ob.goal)]

        def mk(ob):
            return {'name': ob.name, 'kind': ob.kind, 'role': ob.role, 'line': ob.where,
                    'path': list(ob.decisions), 'contract': key, 'info': ob.info or None}
        for ob in trivial:
            rec = mk(ob)
            rec.update(result='proved', seconds=0.0, backend='trivial', reason='')
            res['obligations'].append(rec)
        for g in vc.export_groups_rel(real):
            g['members'] = [mk(ob) for ob in g['members']]
            res['groups'].append(g)
    except OutOfSubset as e:
        res['error'] = 'out-of-subset: %s' % e
    except S.SpecError as e:
        res['error'] = 'spec-error: %s' % e
    except front.FrontError as e:
        res['error'] = 'front-error: %s' % e
    except Exception as e:
        res['error'] = 'engine-crash: %r\n%s' % (e, traceback.format_exc()[-1500:])
    res['wall_s'] = round(time.time() - t0, 3)
    return res


def _check(smt2, sel, timeout_ms, seed):
    ctx = z3.Context()
    s_ = z3.Solver(ctx=ctx)
    s_.from_string(smt2)
    s_.set('timeout', timeout_ms)
    s_.set('random_seed', seed)
    return s_, ctx, z3.Bool(sel, ctx)


def split_group_text(smt2, n_goals):
    """The group text is declarations + one (assert ...) block per hypothesis +
    one per goal (the last n_goals).  Returns (common text, [goal block, ...])."""
    parts = smt2.split('\n(assert')
    head = parts[0]
    blocks = parts[1:]
    # the final block carries the trailing (check-sat)
    last = blocks[-1]
    idx = last.rfind('(check-sat)')
    if idx >= 0:
        blocks[-1] = last[:idx]
    hyps = blocks[:len(blocks) - n_goals]
    goals = blocks[len(blocks) - n_goals:]
    return head, ['\n(assert' + b for b in hyps], ['\n(assert' + g for g in goals]


def relevant(hyp_syms, goal_syms, rounds=3, hub_frac=0.5):
    """Indices of the hypotheses that share a (non-hub) symbol with the goal,
    transitively for a few rounds."""
    n = len(hyp_syms)
    count = {}
    for hs in hyp_syms:
        for x in hs:
            count[x] = count.get(x, 0) + 1
    hubs = {x for x, c in count.items() if n >= 8 and c > hub_frac * n}
    cur = set(goal_syms) - hubs
    chosen = set()
    for _ in range(rounds):
        grew = False
        for i, hs in enumerate(hyp_syms):
            if i in chosen:
                continue
            hset = set(hs) - hubs
            if not hset or (hset & cur):
                chosen.add(i)
                if not hset <= cur:
                    cur |= hset
                    grew = True
        if not grew:
            break
    return chosen


def cvc5_unsat(text, timeout_ms):
    """True if /usr/bin/cvc5 reports unsat for the SMT-LIB text; a short string otherwise."""
    import shutil
    import subprocess
    import tempfile
    exe = shutil.which('cvc5')
    if exe is None:
        return 'cvc5 not installed'
    with tempfile.NamedTemporaryFile('w', suffix='.smt2', delete=False,
                                     dir=os.environ.get('VERIF_SCRATCH')) as f:
        f.write('(set-logic ALL)\n' + text + '\n(check-sat)\n')
        path = f.name
    try:
        out = subprocess.run([exe, '--tlimit=%d' % timeout_ms, path], capture_output=True, text=True,
                             timeout=timeout_ms / 1000.0 + 10)
        first = (out.stdout.strip().splitlines() or [''])[0]
        if first == 'unsat':
            return True
        return first or out.stderr.strip()[:120]
    except Exception as e:       # noqa
        return repr(e)
    finally:
        try:
            os.unlink(path)
        except OSError:
            pass


def second_opinions(text, rec, opts, i):
    """Thorough tier: every k-th proved obligation is re-checked by the other installed solvers on
    the exported SMT-LIB text (z3 4.8.12 CLI, cvc5 CLI).  Only disagreement (sat) matters."""
    k = opts.get('second_every')
    if not k or rec.get('kind') == 'canary' or (i + len(rec.get('name', ''))) % k:
        return
    import shutil
    import subprocess
    import tempfile
    out = {}
    with tempfile.NamedTemporaryFile('w', suffix='.smt2', delete=False,
                                     dir=os.environ.get('VERIF_SCRATCH')) as f:
        f.write(text + '\n(check-sat)\n')
        path = f.name
    try:
        z3old = '/usr/bin/z3'
        if os.path.exists(z3old):
            try:
                r = subprocess.run([z3old, '-T:20', path], capture_output=True, text=True, timeout=40)
                out['z3-4.8.12'] = (r.stdout.strip().splitlines() or ['?'])[0][:40]
            except Exception as e:      # noqa
                out['z3-4.8.12'] = 'error'
        c5 = cvc5_unsat(text, 20000)
        out['cvc5'] = 'unsat' if c5 is True else str(c5)[:40]
    finally:
        try:
            os.unlink(path)
        except OSError:
            pass
    rec['second'] = out


def solve_one(args):
    rec = _solve_one(args)
    try:
        if rec.get('result') == 'proved' and args[10].get('second_every'):
            modnames, head, hyp_blocks, hyp_syms, goal_block, goal_syms, i, rec_, timeout_ms, seed, opts = args
            text = head + ''.join(hyp_blocks) + goal_block + '\n(assert sel!%d)\n' % i
            second_opinions(text, rec, opts, i)
    except Exception as e:       # noqa
        rec['second'] = {'error': repr(e)[:100]}
    return rec


def _solve_one(args):
    """Phase 2 worker: ONE obligation in a FRESH z3 context and a non-incremental
    solver (verdicts must not depend on what was solved before).  `unknown` is
    retried with another seed before it counts as undecided; then the
    finite-scope refuter looks for a candidate counter-model."""
    modnames, head, hyp_blocks, hyp_syms, goal_block, goal_syms, i, rec, timeout_ms, seed, opts = args
    text = head + ''.join(hyp_blocks) + goal_block + '\n(assert sel!%d)\n' % i
    t1 = time.time()
    # first with the relevant hypotheses only (sound for proving, and far more
    # robust: fewer quantifiers to instantiate); only `unsat` is accepted from it
    if len(hyp_blocks) == len(hyp_syms) and rec['kind'] != 'canary' and opts.get('relevance', True):
        tried_sizes = set()
        for rounds, sd, frac in ((3, seed, 0.5), (1, seed, 0.12), (1, seed, 0.5), (2, seed + 7, 0.5)):
            sel_idx = relevant(hyp_syms, goal_syms, rounds=rounds, hub_frac=frac)
            if len(sel_idx) >= len(hyp_blocks) or len(sel_idx) in tried_sizes:
                continue
            tried_sizes.add(len(sel_idx))
            small = head + ''.join(b for j, b in enumerate(hyp_blocks) if j in sel_idx) \
                + goal_block + '\n(assert sel!%d)\n' % i
            try:
                ctx = z3.Context()
                s_ = z3.Solver(ctx=ctx)
                s_.from_string(small)
                s_.set('timeout', 1200 if frac < 0.5 else max(1000, timeout_ms // 3))
                s_.set('random_seed', sd)
                if str(s_.check()) == 'unsat':
                    rec['seconds'] = round(time.time() - t1, 4)
                    rec['backend'] = 'z3-%s' % z3.get_version_string()
                    rec['reason'] = ''
                    rec['attempts'] = len(tried_sizes)
                    rec['hyps_used'] = '%d of %d' % (len(sel_idx), len(hyp_blocks))
                    rec['result'] = 'proved'
                    return rec
            except z3.Z3Exception:
                pass
        # recency: all quantifier-free facts plus the quantified hypotheses of the most recent
        # part of the path (older states' invariants are usually irrelevant and only feed
        # the instantiation engine); again only `unsat` is accepted
        nq = len(hyp_blocks)
        for frac in (0.6, 0.4):
            cut = int(nq * frac)
            small = head + ''.join(b for j, b in enumerate(hyp_blocks) if j >= cut or '(forall' not in b) \
                + goal_block + '\n(assert sel!%d)\n' % i
            try:
                ctx = z3.Context()
                s_ = z3.Solver(ctx=ctx)
                s_.from_string(small)
                s_.set('timeout', max(1000, timeout_ms // 4))
                s_.set('random_seed', seed)
                if str(s_.check()) == 'unsat':
                    rec['seconds'] = round(time.time() - t1, 4)
                    rec['backend'] = 'z3-%s' % z3.get_version_string()
                    rec['reason'] = ''
                    rec['attempts'] = len(tried_sizes) + 1
                    rec['hyps_used'] = 'recent %.0f%% of %d' % (100 * (1 - frac), nq)
                    rec['result'] = 'proved'
                    return rec
            except z3.Z3Exception:
                pass
    to = min(timeout_ms, 2000) if rec['kind'] == 'canary' else timeout_ms
    # portfolio: default configuration, then a conservative instantiation threshold
    # (tames E-matching blow-ups), then another seed
    attempts = [(seed, to, {})] if rec['kind'] == 'canary' else \
        [(seed, to, {}), (seed, to, {'smt.qi.eager_threshold': 5.0}), (seed + 1, max(1000, to // 2), {})]
    r, reason, n_att, model = 'unknown', '', 0, None
    for sd, tmo, params in attempts:
        n_att += 1
        try:
            ctx = z3.Context()
            s_ = z3.Solver(ctx=ctx)
            s_.from_string(text)
            s_.set('timeout', tmo)
            s_.set('random_seed', sd)
            for pk, pv in params.items():
                s_.set(pk, pv)
            r = str(s_.check())
            reason = s_.reason_unknown() if r == 'unknown' else ''
            if r == 'sat':
                model = (s_.model(), ctx)
        except z3.Z3Exception as e:
            r, reason = 'error', repr(e)
        if r != 'unknown':
            break
    backend = 'z3-%s' % z3.get_version_string()
    if r == 'unknown' and rec['kind'] != 'canary' and opts.get('cvc5', True):
        # second back end for what z3 leaves open: cvc5 on the same SMT-LIB text (only
        # `unsat` is taken from it)
        c5 = cvc5_unsat(text, max(3000, timeout_ms))
        n_att += 1
        if c5 is True:
            r, reason, backend = 'unsat', '', 'cvc5-cli'
        elif isinstance(c5, str):
            reason += ' | cvc5: ' + c5[:120]
    rec['seconds'] = round(time.time() - t1, 4)
    rec['backend'] = backend
    rec['reason'] = reason
    rec['attempts'] = n_att
    rec['result'] = {'unsat': 'proved', 'sat': 'sat', 'unknown': 'unknown', 'error': 'error'}[r]
    if rec['result'] == 'proved' or rec['kind'] == 'canary':
        return rec
    rec['smt2_head'] = text[:1200]
    try:
        sp = _worker_spec(modnames)
        env = run_env(sp, None, rec['contract'])
    except Exception as e:
        env = {}
        rec['witness_error'] = repr(e)
    rec['params'] = shapes_of(env)
    if model is not None:
        try:
            rec['witness'] = witness_of(env, model)
            rec['model'] = str(model[0])[:3000]
        except Exception as e:
            rec['witness_error'] = repr(e)
    elif rec['result'] == 'unknown' and opts.get('refute', True):
        from . import refute
        try:
            fm = refute.finite_scope_smt2(text, scope=opts.get('scope', 3),
                                          timeout_ms=min(timeout_ms, 6000))
            if fm is not None:
                rec['result'] = 'refuted-finite-scope' if fm['exact'] else 'candidate-finite-scope'
                rec['model'] = fm['text'][:4000]
                rec['scope'] = fm['scope']
                try:
                    rec['witness'] = witness_of(env, (fm['model'], fm['ctx']))
                except Exception as e:
                    rec['witness_error'] = repr(e)
        except Exception as e:
            rec['refute_error'] = repr(e)
    if opts.get('keep_smt2'):
        rec['smt2'] = text
    return rec


def shapes_of(env):
    from .sym import ZV, TupV, Con, deref
    out = {}
    for k, v in env.items():
        v = deref(v)
        if isinstance(v, TupV):
            out[k] = {'cls': v.cls, 'len': len(v.items)}
        elif isinstance(v, Con):
            out[k] = {'con': repr(v.v)}
        elif isinstance(v, ZV):
            out[k] = {'sort': v.t.sort().name()}
        else:
            from .exec import ClassV
            out[k] = {'class': v.qual} if isinstance(v, ClassV) else {'other': type(v).__name__}
    return out


def run_env(sp, run, key):
    """Parameter environment of a contract (deterministic names)."""
    from .exec import Executor, Frame
    X = Executor(sp.repo, sp, [])
    ct = sp.contracts[key]
    env = {}
    m, fn = sp.function_for(key)
    a = fn.args
    names = [p.arg for p in a.posonlyargs + a.args] + ([a.vararg.arg] if a.vararg else []) \
        + [p.arg for p in a.kwonlyargs] + ([a.kwarg.arg] if a.kwarg else [])
    from .sym import Type
    for n in names:
        T = ct.params.get(n)
        if T is None:
            continue
        env[n] = T(X, n) if (callable(T) and not isinstance(T, Type)) else X.fresh(T, 'p_' + n)
    return env


def run_all(modnames, keys, timeout_ms, seed, opts, workers=16):
    ctx = mp.get_context('fork')
    jobs = [(modnames, k, opts) for k in keys]
    import sys
    t0 = time.time()
    with ctx.Pool(workers) as p:
        results = p.map(gen_contract, jobs, chunksize=max(1, len(jobs) // (workers * 8)))
        if os.environ.get('VERIF_PROFILE'):
            sys.stderr.write('phase1 %.1fs\n' % (time.time() - t0))
        flat = []
        for r in results:
            for g in r.get('groups', []):
                head, hyps, goals = split_group_text(g['smt2'], len(g['members']))
                for i, (rec, gb) in enumerate(zip(g['members'], goals)):
                    flat.append((modnames, head, hyps, g['hyp_syms'], gb, g['goal_syms'][i], i,
                                 rec, timeout_ms, seed, opts))
        solved = p.map(solve_one, flat, chunksize=max(1, min(8, len(flat) // (workers * 4) or 1)))
    if os.environ.get('VERIF_PROFILE'):
        sys.stderr.write('phase1+2 %.1fs obligations=%d\n' % (time.time() - t0, len(flat)))
    it = iter(solved)
    for r in results:
        for g in r.pop('groups', []):
            for _ in g['members']:
                r['obligations'].append(next(it))
    return results
