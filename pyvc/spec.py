"""Sidecar contract language and the modular call/verify rules.

Spec expressions are Python expressions parsed with `ast` and evaluated by the
same evaluator as the code (in spec mode: total operations, no forking), plus
  old(e)  implies(a, b)  iff(a, b)  wf(x)  all(... for v in Sort)  any(...)
"""
import ast
import z3

from . import front
from .sym import forall, _sort_id
from .sym import (Val, Con, ZV, TupV, SetV, DictV, ListV, OptV, StrV, Loc, NONE,
                  Type, TScalar, TInt, TReal, TBool, TStr, TSet, TDict, TList,
                  TTuple, TOpt, OutOfSubset, deref, coerce_term, ite, usort,
                  none_of, is_usort, type_of_val, TSort)
from .exec import (Executor, Frame, PyRaise, ExcV, _Return, PathEnd, Closure,
                   BoundMethod, Builtin, ClassV, OpenFn, Obligation, ClassLevel,
                   StarPack)
from . import prelude


def _gid(v):
    if isinstance(v, ListV):
        return (v.n.get_id(),) + tuple(a.get_id() for a in v.ats)
    if isinstance(v, ZV):
        return v.t.get_id()
    if hasattr(v, 'get_id'):
        return v.get_id()
    return id(v)


class SpecError(Exception):
    """Contract does not translate: checker error (exit 3), never a verdict."""


class Klass:
    def __init__(self, spec, qual, sort_name, fields=None, parent=None):
        self.spec, self.qual, self.sort_name = spec, qual, sort_name
        self.fields = dict(fields or {})
        self.parent = parent
        self.invariants = []          # (name, role, text)
        self.rely = []                # (name, text) two-state clauses on callbacks
        self.client_fields = None     # fields callbacks may change (default: all)
        self.open_methods = {}        # name -> OpenFn
        self.attr_hooks = {}
        self.attr_store_hooks = {}
        # instances are always true (the class defines neither __bool__ nor __len__)
        self.default_truthiness = bool(qual) and qual.startswith('desper.') and \
            not qual.endswith('Processor')
        self.sort = usort(sort_name)

    def find_attr_hook(self, attr):
        k = self
        while k is not None:
            if attr in k.attr_hooks:
                return k.attr_hooks[attr]
            k = k.parent
        return None

    def invariant(self, name, text, role='aux'):
        self.invariants.append((name, role, text))

    def all_rely(self):
        out, k = [], self
        while k is not None:
            out = list(k.rely) + out
            k = k.parent
        return out

    def all_fields(self):
        out, k = {}, self
        while k is not None:
            for f, T in k.fields.items():
                out.setdefault(f, T)
            k = k.parent
        return out

    def all_invariants(self):
        out = []
        k = self
        while k is not None:
            out = [(k, *i) for i in k.invariants] + out
            k = k.parent
        return out


class Contract:
    def __init__(self, qual, params=None, requires=None, ensures=None, raises=None,
                 modifies=None, returns=None, inline_ok=False, props=(), note='',
                 ghost_pre=None, ghost_post=None, open_effect=False, covers=None,
                 implicit_ok=(), rely=None, ghost_results=None, log_invocation=None,
                 closure_params=None):
        self.qual = qual
        self.params = dict(params or {})
        self.requires = list((requires or {}).items()) if isinstance(requires, dict) \
            else [('pre%d' % i, r) for i, r in enumerate(requires or [])]
        self.ensures = _clauses(ensures)
        self.raises = {k: _clauses(v) for k, v in (raises or {}).items()}
        self.modifies = list(modifies or [])
        self.returns = returns
        self.props = tuple(props)
        self.note = note
        self.open_effect = open_effect
        self.implicit_ok = tuple(implicit_ok)
        self.rely = rely
        self.ghost_results = dict(ghost_results or {})
        self.log_invocation = log_invocation
        self.closure_params = dict(closure_params or {})


def _clauses(c):
    """{'name': 'text' | ('text', role)} -> [(name, text, role)]"""
    out = []
    if c is None:
        return out
    if isinstance(c, str):
        c = {'post': c}
    if isinstance(c, (list, tuple)):
        c = {'post%d' % i: x for i, x in enumerate(c)}
    for k, v in c.items():
        if isinstance(v, tuple):
            out.append((k, v[0], v[1]))
        else:
            out.append((k, v, 'prop'))
    return out


class LoopSpec:
    def __init__(self, qual, ordinal, invariants=None, vars=None, havoc=None,
                 decreases=None, index=None, seq=None, unroll=None, ghost=None, entry=None,
                 head=None, body_ensures=None):
        self.qual, self.ordinal = qual, ordinal
        self.invariants = _clauses(invariants)
        self.vars = dict(vars or {})
        self.havoc = list(havoc or [])
        self.decreases = decreases
        self.index = index or '_i'
        self.seq = seq or '_seq'
        self.unroll = unroll
        self.ghost = ghost or {}
        # entry: name -> spec expression evaluated once when the loop is reached (a snapshot,
        # not havocked); head: name -> spec expression evaluated at the head of the arbitrary
        # iteration, visible to the ghost steps
        self.entry = entry or {}
        self.head = head or {}
        # contract of ONE iteration: clauses checked when the body of the arbitrary iteration ends
        # normally (or by continue); old(...) in them is the state at the head of that iteration
        self.body_ensures = _clauses(body_ensures)


class Spec:
    """Registry of everything the sidecar files declare, plus the hook points
    the executor calls for semantics that depend on the declarations."""

    def __init__(self, repo):
        self.repo = repo
        self.sort_classes = {}       # sort name -> Klass
        self.class_by_qual = {}
        self.contracts = {}
        self.loops = {}
        self.lemmas = {}
        self.lemma_modules = {}
        self.spec_forms = {'old': self.f_old, 'implies': self.f_implies, 'iff': self.f_iff,
                           'wf': self.f_wf, 'ite': self.f_ite, 'let': self.f_let,
                           'assume': self.f_assume, 'unchanged_except': self.f_unchanged_except}
        self.spec_names = {}
        self.global_override = {}
        self.class_attr_store = {}
        self.class_attr_load = {}
        self.constructors = {}
        self.externals = {}
        self.len_hooks = {}
        self.type_hooks = {}
        self.use_contracts = True
        self.verifying = None
        self.inline = set()          # quals forced inline even if a contract exists
        self.assumptions = []        # (id, text) site / global assumptions in force
        self.open_handlers = []
        self.open_raise_categories = ['$OtherException']
        self.env_havocs = []
        self.ghost_decls = {}
        self.sites = {}
        self.site_prefix = {}
        self._wf_cache = {}
        self._parse_cache = {}

    # ----------------------------------------------------------- declaration
    def klass(self, qual, sort_name, fields=None, parent=None):
        k = Klass(self, qual, sort_name, fields, parent)
        self.sort_classes[sort_name] = k
        if qual:
            self.class_by_qual[qual] = k
        return k

    def contract(self, qual, **kw):
        c = Contract(qual, **kw)
        self.contracts[qual] = c
        return c

    def loop(self, qual, ordinal, **kw):
        ls = LoopSpec(qual, ordinal, **kw)
        self.loops[(qual, ordinal)] = ls
        return ls

    def lemma(self, file, name, params=None, props=(), requires=None, **kw):
        import os
        path = os.path.join(os.path.dirname(os.path.dirname(os.path.abspath(__file__))), file)
        key = 'lemmafile:' + file
        if key not in self.lemma_modules:
            modname = os.path.basename(file)[:-3]
            self.lemma_modules[key] = front.Module(modname, path)
        m = self.lemma_modules[key]
        if name not in m.functions:
            raise SpecError('no lemma %s in %s' % (name, file))
        qual = 'lemma:' + name
        self.lemmas[qual] = (m, m.functions[name])
        c = Contract(qual, params=params, requires=requires, props=props, **kw)
        c.is_lemma = True
        self.contracts[qual] = c
        return c

    def function_for(self, key):
        """(module, FunctionDef) for a contract key 'qual' or 'qual#variant'."""
        qual = key.split('#')[0]
        if qual in self.lemmas:
            return self.lemmas[qual]
        return self.repo.function(qual)

    def define(self, name, fn):
        """Spec-level function: fn(X, *vals) -> Val."""
        self.spec_names[name] = Builtin(name, lambda X, a, k, n: fn(X, *a))

    def sort_name(self, name, sort=None):
        self.spec_names[name] = prelude.SortDomain(sort if sort is not None else usort(name))

    # ------------------------------------------------------------ evaluation
    def parse(self, text):
        node = self._parse_cache.get(text)
        if node is not None:
            return node
        try:
            node = ast.parse(text.strip(), mode='eval').body
        except SyntaxError as e:
            raise SpecError('spec does not parse: %r (%s)' % (text, e))
        self._parse_cache[text] = node
        return node

    def eval_spec(self, X, text, env, module=None):
        """Evaluate a spec expression to a z3 Bool (or a Val)."""
        node = self.parse(text) if isinstance(text, str) else text
        fr = Frame(module)
        fr.spec = True
        fr.vars.update(env)
        X.spec_mode += 1
        saved = X.cur_node
        try:
            return X.ev(node, fr)
        except PyRaise as pr:
            raise SpecError('spec raised %s: %r' % (pr.exc.cls, text))
        finally:
            X.spec_mode -= 1
            X.cur_node = saved

    def eval_bool(self, X, text, env, module=None):
        v = self.eval_spec(X, text, env, module)
        t = X.truth(v)
        return z3.BoolVal(t) if isinstance(t, bool) else t

    def lookup_spec_name(self, X, name):
        if name in self.spec_names:
            return self.spec_names[name]
        if name in self.sort_classes:
            return prelude.SortDomain(usort(name))
        if name in ('Int',):
            return prelude.SortDomain(z3.IntSort())
        if name == 'Real':
            return prelude.SortDomain(z3.RealSort())
        return None

    # ------------------------------------------------------------ spec forms
    def f_old(self, X, node, fr):
        if not X.old_stack:
            raise SpecError('old() outside a postcondition')
        snap = X.old_stack[-1]
        cur_h, cur_g = X.heap, X.ghost
        X.heap, X.ghost = dict(snap['heap']), dict(snap['ghost'])
        fr2 = fr
        if snap.get('params'):
            fr2 = Frame(fr.module, parent=fr)
            fr2.spec = True
            fr2.vars.update(snap['params'])
        try:
            v = X.ev(node.args[0], fr2)
            return freeze(v)
        finally:
            X.heap, X.ghost = cur_h, cur_g

    def f_implies(self, X, node, fr):
        a = X._z(X.truth(X.ev(node.args[0], fr)))
        if z3.is_false(a):
            return Con(True)
        b = X._z(X.truth(X.ev(node.args[1], fr)))
        return ZV(z3.Implies(a, b))

    def f_iff(self, X, node, fr):
        a = X._z(X.truth(X.ev(node.args[0], fr)))
        b = X._z(X.truth(X.ev(node.args[1], fr)))
        return ZV(a == b)

    def f_ite(self, X, node, fr):
        c = X._z(X.truth(X.ev(node.args[0], fr)))
        return ite(c, X.ev(node.args[1], fr), X.ev(node.args[2], fr))

    def f_assume(self, X, node, fr):
        X.spec_mode += 1
        try:
            X.assume(X._z(X.truth(X.ev(node.args[0], fr))))
        finally:
            X.spec_mode -= 1
        return NONE

    def f_unchanged_except(self, X, node, fr):
        """unchanged_except(obj, 'f1,f2'): every declared field of obj (own class
        and ancestors) other than the listed ones has its old value."""
        obj = deref(X.ev(node.args[0], fr))
        exc = set(x.strip() for x in deref(X.ev(node.args[1], fr)).v.split(',') if x.strip())
        kl = self.sort_classes[obj.t.sort().name()]
        snap = X.old_stack[-1]
        conj = []
        sn = obj.t.sort().name()
        for f, T in kl.all_fields().items():
            if f in exc or isinstance(T, ClassLevel):
                continue
            new = X.heap_leaves(sn, f, T)
            old = snap['heap'].get((sn, f)) or X.initial_leaves((sn, f))
            for a, b in zip(new, old):
                if not a.eq(b):
                    conj.append(a[obj.t] == b[obj.t])
        return ZV(z3.And(*conj)) if conj else Con(True)

    def f_let(self, X, node, fr):
        # let(name=expr, ..., body)  evaluated left to right
        sub = Frame(fr.module, parent=fr)
        sub.spec = True
        body = None
        for k in node.keywords:
            if k.arg == 'body':
                body = k.value
                continue
            sub.vars[k.arg] = X.ev(k.value, sub)
        return X.ev(body if body is not None else node.args[0], sub)

    def f_wf(self, X, node, fr):
        obj = deref(X.ev(node.args[0], fr))
        only = None
        if len(node.args) > 1:
            only = deref(X.ev(node.args[1], fr)).v
        return ZV(self.wf_formula(X, obj, only))

    def wf_formula(self, X, obj, only=None, roles=None):
        conj = [f for _, _, f in self.wf_clauses(X, obj, only)]
        return z3.And(*conj) if conj else z3.BoolVal(True)

    def inv_selected(self, kl, declaring, name, only):
        """`only`: an invariant name, a group name declared on the class
        (kl.groups), or the sort name of the declaring class ('Disp')."""
        for sel in only.split(','):
            sel = sel.strip()
            if sel == name or sel == declaring.sort_name:
                return True
            k = kl
            while k is not None:
                if name in getattr(k, 'groups', {}).get(sel, ()):
                    return True
                k = k.parent
        return False

    def wf_clauses(self, X, obj, only=None):
        """Invariant clauses of obj in the current state.  Memoised on the identity
        of the heap arrays and ghosts (z3 terms are hash-consed), since the same
        state recurs at every call site, callback site and exit of a path."""
        sn = obj.t.sort().name()
        kl = self.sort_classes[sn]
        sig = (sn, obj.t.get_id(), only,
               tuple((k, tuple(a.get_id() for a in v)) for k, v in sorted(X.heap.items())),
               tuple((g, _gid(v)) for g, v in sorted(X.ghost.items())))
        hit = self._wf_cache.get(sig)
        if hit is not None:
            return hit[0]
        out = []
        keep = (dict(X.heap), dict(X.ghost), obj)
        n_pc = len(X.pc)
        for (k, name, role, text) in kl.all_invariants():
            if only is not None and not self.inv_selected(kl, k, name, only):
                continue
            out.append((name, role, self.eval_bool(X, text, {'self': obj})))
        if len(X.pc) == n_pc and tuple((k, tuple(a.get_id() for a in v))
                                       for k, v in sorted(X.heap.items())) == sig[3]:
            self._wf_cache[sig] = (out, keep)
        return out

    # -------------------------------------------------- default code hooks
    def isinstance_(self, X, v, cls, node):
        names = []
        for c in (cls.items if isinstance(cls, TupV) else [cls]):
            c = deref(c)
            if isinstance(c, ClassV):
                names.append(c.qual)
            elif isinstance(c, Builtin):
                names.append(c.name)
            elif isinstance(c, ZV):
                # class given as a Type term
                if isinstance(v, ZV) and is_usort(v.t.sort()):
                    return ZV(prelude.desc(c.t, prelude.type_of(X, v.t)))
                X.unsupported('isinstance against symbolic class', node)
            else:
                X.unsupported('isinstance against %r' % (c,), node)
        res = False
        for n in names:
            r = self.isinstance_one(X, v, n, node)
            if r is True:
                return Con(True)
            if r is not False:
                res = r if res is False else z3.Or(res, r)
        return Con(False) if res is False else ZV(res)

    def isinstance_one(self, X, v, name, node):
        short = name.split('.')[-1]
        if isinstance(v, Con):
            py = {'str': str, 'int': int, 'float': float, 'bool': bool, 'tuple': tuple,
                  'list': list, 'dict': dict, 'Hashable': (str, int, float, bool, tuple,
                                                           type(None), frozenset)}
            if short in py:
                return isinstance(v.v, py[short])
            return False
        if isinstance(v, TupV):
            if v.cls and (v.cls == name or short in [q.split('.')[-1] for q in X.repo.mro(v.cls)]):
                return True
            return short in ('tuple', 'Hashable') and not v.is_list or (
                short == 'list' and v.is_list)
        if isinstance(v, ZV):
            s = v.t.sort()
            if s == z3.StringSort():
                return short in ('str', 'Hashable')
            if s == z3.IntSort():
                return short in ('int', 'Hashable')
            if s == z3.RealSort():
                return short in ('float', 'int', 'Hashable', 'SupportsFloat')
            if s == z3.BoolSort():
                return short in ('bool', 'int', 'Hashable')
            if is_usort(s):
                return self.isinstance_sort(X, v, name, node)
        if isinstance(v, ExcV):
            return X.exc_isinstance(v.cls, name)
        if isinstance(v, OptV):
            r = self.isinstance_one(X, v.val, name, node)
            if r is False:
                return False
            return z3.And(z3.Not(v.isnone), X._z(r))
        X.unsupported('isinstance(%r, %s)' % (v, name), node)

    def isinstance_sort(self, X, v, name, node):
        sn = v.t.sort().name()
        kl = self.sort_classes.get(sn)
        short = name.split('.')[-1]
        h = self.isinstance_hooks.get((sn, short)) if hasattr(self, 'isinstance_hooks') else None
        if h is not None:
            return h(X, v)
        if kl is not None and kl.qual:
            mro = [q.split('.')[-1] for q in X.repo.mro(kl.qual)]
            if short in mro:
                return v.t != none_of(v.t.sort())
        if short == 'Hashable':
            return True        # T4: ids and objects are lawful hashables
        if kl is not None and kl.qual:
            return False
        X.unsupported('isinstance(%s, %s) undeclared' % (sn, name), node)

    def issubclass_(self, X, a, b, node):
        if isinstance(a, ClassV) and isinstance(b, ClassV):
            if a.qual.startswith('desper'):
                return Con(b.qual in X.repo.mro(a.qual))
            return Con(a.qual == b.qual)
        ta = a.t if isinstance(a, ZV) else prelude.class_term(X, a)
        tb = b.t if isinstance(b, ZV) else prelude.class_term(X, b)
        return ZV(prelude.desc(tb, ta))

    def hasattr_(self, X, v, name, node):
        if isinstance(v, ZV) and is_usort(v.t.sort()) and isinstance(name, Con):
            sn = v.t.sort().name()
            kl = self.sort_classes.get(sn)
            h = getattr(self, 'hasattr_hooks', {}).get((sn, name.v))
            if h is not None:
                return h(X, v)
            _, T = X.field_decl(sn, name.v)
            if T is not None:
                return Con(True)
        X.unsupported('hasattr(%r, %r)' % (v, name), node)

    def getattr_dynamic(self, X, obj, name, default, node):
        h = getattr(self, 'getattr_hook', None)
        if h is not None:
            return h(X, obj, name, default, node)
        X.unsupported('getattr with symbolic name', node)

    def callable_(self, X, v, node):
        if isinstance(v, (Closure, Builtin, ClassV, OpenFn, BoundMethod)):
            return Con(True)
        X.unsupported('callable(%r)' % (v,), node)

    def next_(self, X, v, node):
        h = getattr(self, 'next_hook', None)
        if h is not None:
            return h(X, v, node)
        X.unsupported('next(%r)' % (v,), node)

    def call_object(self, X, f, args, kwargs, node):
        h = getattr(self, 'call_object_hook', None)
        if h is not None:
            return h(X, f, args, kwargs, node)
        X.unsupported('call of object %r' % (f,), node)

    def open_call(self, X, f, recv, args, kwargs, node):
        for h in self.open_handlers:
            r = h(X, f, recv, args, kwargs, node)
            if r is not None:
                return r[0]
        X.unsupported('open call %r without a handler' % (f.name or f,), node)

    def global_value(self, X, module, name, expr):
        fr = Frame(module)
        return X.ev(expr, fr)

    def sequence_hook(self, X, v, node):
        return None

    def con_dict_symbolic_key(self, X, c, k, node):
        return None

    def con_dict_store(self, X, cont, c, k, v, node):
        return None

    def con_dict_contains(self, X, c, it, node):
        return None

    def con_dict_get(self, X, c, k, default, node):
        return None

    def str_contains(self, X, c, it, node):
        return None

    def contains_hook(self, X, c, it, node):
        return None

    def getitem_hook(self, X, c, k, node):
        return None

    def getitem_object(self, X, c, k, node):
        h = getattr(self, 'getitem_object_hook', None)
        if h:
            return h(X, c, k, node)
        X.unsupported('subscript of object %r' % (c,), node)

    def setitem_object(self, X, c, k, v, node):
        h = getattr(self, 'setitem_object_hook', None)
        if h:
            return h(X, c, k, v, node)
        X.unsupported('item store on object %r' % (c,), node)

    def container_attr_hook(self, X, obj, c, attr, node):
        return None

    def dict_update_hook(self, X, obj, c, o, node):
        return None

    def dict_comp_hook(self, X, node, fr, it):
        return None

    def bitor_hook(self, X, a, b, node):
        for h in getattr(self, 'bitor_hooks', []):
            r = h(X, a, b, node)
            if r is not None:
                return r
        return None

    def inplace_or_hook(self, X, cur, rhs, node):
        for h in getattr(self, 'inplace_or_hooks', []):
            if h(X, cur, rhs, node):
                return True
        return False

    def symstr_method(self, X, c, attr, args, kw, node):
        X.unsupported('method %s of symbolic string' % attr, node)

    def str_join(self, X, sep, seq, node):
        X.unsupported('str.join with symbolic parts', node)

    def class_builtin_attr(self, X, cv, attr, node):
        return None

    def code_comprehension(self, X, node, fr, kind):
        """[elt for target in C (if cond)] over a symbolic collection C that the
        element/condition expressions do not modify: pointwise image (no `if`) or
        order-preserving filtered image."""
        from . import loops
        if len(node.generators) != 1:
            X.unsupported('nested comprehension over symbolic collections', node)
        g = node.generators[0]
        it = X.ev(g.iter, fr)
        seq, item = loops.iteration_sequence(X, it, node)
        sub = Frame(fr.module, parent=fr, cls=fr.cls)
        i = z3.Int(X.fresh_name('ci'))
        heap_before = dict(X.heap)
        X.assign(g.target, item(i), sub)
        conds = []
        X.spec_mode += 1
        try:
            for c in g.ifs:
                conds.append(X._z(X.truth(X.ev(c, sub))))
            elt = deref(X.ev(node.elt, sub))
        finally:
            X.spec_mode -= 1
        for k, v in X.heap.items():
            before = heap_before.get(k) or X.initial_leaves(k)
            if any(not a.eq(b) for a, b in zip(v, before)):
                X.unsupported('comprehension with side effects', node)
        E = type_of_val(elt)
        ats = [z3.Const(X.fresh_name('cmp_at'), z3.ArraySort(z3.IntSort(), srt))
               for srt in E.leaf_sorts()]
        el = E.to_leaves(elt)
        if not conds:
            for a, l in zip(ats, el):
                X.assume(forall([i], z3.Implies(z3.And(0 <= i, i < seq.n), a[i] == l),
                                   patterns=[a[i]]))
            out = ListV(E, seq.n, ats)
            out.image_of = (seq, i, el)
            return out
        # filtered: strictly increasing embedding emb with partial inverse inv
        cond = z3.And(*conds)
        n = z3.Int(X.fresh_name('cmp_n'))
        emb = z3.Function(X.fresh_name('cmp_emb'), z3.IntSort(), z3.IntSort())
        inv = z3.Function(X.fresh_name('cmp_inv'), z3.IntSort(), z3.IntSort())
        j, j2 = z3.Ints('j_cmp j2_cmp')
        X.assume(z3.And(n >= 0, n <= seq.n))
        body = [0 <= emb(j), emb(j) < seq.n, z3.substitute(cond, (i, emb(j))), inv(emb(j)) == j]
        for a, l in zip(ats, el):
            body.append(a[j] == z3.substitute(l, (i, emb(j))))
        X.assume(forall([j], z3.Implies(z3.And(0 <= j, j < n), z3.And(*body)),
                           patterns=[emb(j)] + [a[j] for a in ats]))
        X.assume(forall([j, j2], z3.Implies(z3.And(0 <= j, j < j2, j2 < n), emb(j) < emb(j2)),
                           patterns=[z3.MultiPattern(emb(j), emb(j2))]))
        X.assume(forall([i], z3.Implies(z3.And(0 <= i, i < seq.n, cond),
                                           z3.And(0 <= inv(i), inv(i) < n, emb(inv(i)) == i)),
                           patterns=[inv(i)] + [sa[i] for sa in seq.ats]))
        out = ListV(E, n, ats)
        out.filter_of = (seq, emb, inv)
        return out

    def bind_from_pack(self, X, fn, nargs, kwargs, node, fr):
        X.unsupported('opaque *args bound to named parameters', node)

    def pack_cons(self, X, extra, pack):
        if not extra:
            return pack
        X.unsupported('prepending to an opaque argument pack')

    def allocate(self, X, kl, cv, args, kwargs, node):
        """Fresh object of a declared class: not equal to any allocated object,
        fields seeded with class-level defaults, then __init__."""
        S = kl.sort
        o = z3.Const(X.fresh_name('new_' + kl.sort_name), S)
        alloc = self.alloc_array(X, S)
        X.assume(z3.Not(alloc[o]))
        X.assume(o != none_of(S))
        X.ghost['alloc_' + S.name()] = z3.Store(alloc, o, True)
        obj = ZV(o)
        # class-level defaults
        k = kl
        seen = set()
        while k is not None:
            for f, T in k.fields.items():
                if f in seen or isinstance(T, ClassLevel):
                    continue
                seen.add(f)
                if kl.qual:
                    ca = X.repo.class_attr(kl.qual, f)
                    if ca is not None:
                        m, expr = ca
                        try:
                            X.write_field(o, f, X.ev(expr, Frame(m)))
                        except OutOfSubset:
                            pass
            k = k.parent
        # facts every new instance of the class has (declared by the spec modules)
        for h in getattr(self, 'alloc_hooks', {}).get(S.name(), []):
            h(X, obj, cv)
        r = X.repo.find_method(kl.qual, '__init__') if kl.qual else None
        if r is not None:
            m, fn, q = r
            X.call_closure(Closure(fn, None, m, cls=q), [obj] + list(args), kwargs, node)
        return obj

    def alloc_havoc(self, sort_name):
        """Havoc of the allocation ghost of a sort: an unknown number of objects may have been
        created, none disappears."""
        def hv(X):
            S = usort(sort_name)
            key = 'alloc_' + sort_name
            if key not in X.ghost:
                self.alloc_array(X, S)      # first use: the entry array itself
                return
            old = X.ghost[key]
            new = z3.Const(X.fresh_name('alloc_' + sort_name), old.sort())
            o = z3.Const('o_al', S)
            X.assume(forall([o], z3.Implies(old[o], new[o]), patterns=[old[o]]))
            X.ghost[key] = new
        return hv

    def alloc_array(self, X, S):
        key = 'alloc_' + S.name()
        if key not in X.ghost:
            X.ghost[key] = z3.Const('alloc0_' + S.name(), z3.ArraySort(S, z3.BoolSort()))
        return X.ghost[key]

    def note_allocated(self, X, t):
        if is_usort(t.sort()):
            X.assume(z3.Or(t == none_of(t.sort()), self.alloc_array(X, t.sort())[t]))

    # --------------------------------------------------- modular call rule
    def contract_for_call(self, X, qual):
        if not self.use_contracts or qual in self.inline:
            return None
        ct = self.contracts.get(qual)
        if ct is None:
            return None
        if X.inline_all:
            return None
        return ct

    def bind_params(self, X, ct, closure, args, kwargs, node):
        fn = closure.fn
        fr = Frame(closure.module, parent=closure.frame, cls=closure.cls, fn=fn)
        dfr = Frame(closure.module, parent=closure.frame, cls=closure.cls)
        X.bind_args(fn, args, kwargs, node, fr, dfr)
        return fr

    def call_by_contract(self, X, ct, closure, args, kwargs, node):
        fr = self.bind_params(X, ct, closure, args, kwargs, node)
        env = dict(fr.vars)
        env = {k: self.coerce_param(X, ct, k, v) for k, v in env.items()}
        short = ct.qual.split('.')[-1] if not ct.qual.endswith('.setter') else \
            ct.qual.split('.')[-2] + '.setter'
        for name, text in ct.requires:
            X.oblige('%s:call-pre[%s].%s' % (X.fn_name, short, name),
                     self.eval_bool(X, text, env, closure.module), kind='call-pre', role='aux')
        logs = ct.log_invocation if isinstance(ct.log_invocation, list) else \
            ([ct.log_invocation] if ct.log_invocation else [])
        for gname, gtext in logs:
            lg = X.ghost.get(gname)
            if lg is None:
                self.havoc_ghost(X, gname)
                lg = X.ghost[gname]
            entry = lg.E.to_leaves(self.eval_spec(X, gtext, env, closure.module))
            X.ghost[gname] = ListV(lg.E, lg.n + 1, [z3.Store(a, lg.n, l)
                                                     for a, l in zip(lg.ats, entry)])
        snap = X.snapshot()
        X.events.append(('call', ct.qual, env))
        self.havoc_modifies(X, ct, env)
        if ct.open_effect:
            # the callee calls out: everything callbacks may change is havocked
            for rn in (ct.rely or ['self']):
                o = deref(env.get(rn)) if rn in env else None
                if isinstance(o, ZV) and o.t.sort().name() in self.sort_classes:
                    self.havoc_client_state(X, o)
            self.havoc_environment(X)
            X.old_stack.append(snap)
            try:
                for rn in (ct.rely or ['self']):
                    o = deref(env.get(rn)) if rn in env else None
                    if isinstance(o, ZV) and o.t.sort().name() in self.sort_classes:
                        # callbacks preserve every invariant of the object (T5)
                        X.assume(self.wf_formula(X, o))
                        for extra in self.rely_extra(X, o):
                            X.assume(extra)
            finally:
                X.old_stack.pop()
        result = NONE
        if ct.returns is not None:
            result = X.fresh(ct.returns, 'res_' + short)
            if isinstance(result, ZV):
                self.note_allocated(X, result.t)
        # exits
        exits = ['return'] + list(ct.raises.keys())
        # exceptions user code raises by design (declared by the spec module, e.g. Quit and
        # SwitchWorld for the loop): what a callee may raise as "any other exception" may be one
        # of them - one path each, with the clauses of the `$OtherException` exit
        expand = [e for e in getattr(ct, 'expand_other', []) if e != '$OtherException'
                  and e not in ct.raises]
        alias = {}
        if '$OtherException' in ct.raises and expand:
            for e in expand:
                exits.append(e)
                alias[e] = '$OtherException'
        which = X.choose([True] * len(exits)) if len(exits) > 1 else 0
        X.old_stack.append(snap)
        try:
            for gname, gtext in ct.ghost_results.items():
                if isinstance(gtext, tuple) and gtext[0] in ('local', 'expr', 'named'):
                    env[gname] = X.fresh(gtext[2], 'gr_' + gname)
                    continue
                if isinstance(gtext, Type):
                    env[gname] = X.fresh(gtext, 'gr_' + gname)
                    continue
                gs = deref(self.eval_spec(X, gtext, env, closure.module))
                env[gname] = prelude.set_enumeration(X, gs)
            if which == 0:
                env2 = dict(env)
                env2['result'] = result
                for name, text, role in ct.ensures:
                    X.assume(self.eval_bool(X, text, env2, closure.module))
                return result
            exc = exits[which]
            ex = ExcV(exc, [], implicit=False)
            for (ecls, fname), FT in getattr(self, 'exc_field_types', {}).items():
                if ecls == exc:
                    ex.fields[fname] = X.fresh(FT, 'exc_' + fname)
            env2 = dict(env)
            env2['exc'] = ex
            for name, text, role in ct.raises[alias.get(exc, exc)]:
                X.assume(self.eval_bool(X, text, env2, closure.module))
            ex.from_contract = ct.qual
            if 'nraised' in getattr(self, 'ghost_decls', {}):
                # ghost: how many contract calls have ended with an exception so far
                if 'nraised' not in X.ghost:
                    self.havoc_ghost(X, 'nraised')
                X.ghost['nraised'] = ZV(X.num(X.ghost['nraised']) + 1)
            hook = getattr(ct, 'raise_hooks', {}).get(exc) or getattr(self, 'raise_hooks', {}).get(exc)
            if hook is not None:
                hook(X, ex, env2)       # ghost bookkeeping of the raised exception
            raise PyRaise(ex)
        finally:
            X.old_stack.pop()

    def coerce_param(self, X, ct, name, v):
        T = ct.params.get(name)
        if T is None or not isinstance(T, Type):
            return v
        if isinstance(v, Loc):
            return v
        try:
            return T.from_leaves(T.to_leaves(v))
        except (OutOfSubset, AssertionError):
            return v

    def havoc_modifies(self, X, ct, env):
        for m in ct.modifies:
            self.havoc_target(X, m, env)

    def havoc_target(self, X, m, env):
        if callable(m):
            m(X, env)
            return
        if m.startswith('ghost:'):
            g = m[6:]
            self.havoc_ghost(X, g)
            return
        if callable(m):
            m(X, env)
            return
        base, field = m.rsplit('.', 1)
        if base in env:
            obj = deref(env[base])
            if not isinstance(obj, ZV):
                raise SpecError('modifies target %s is not an object' % m)
            sn = obj.t.sort().name()
            kl, T = X.field_decl(sn, field)
            if kl is None:
                raise SpecError('modifies: no field %s on %s' % (field, sn))
            o = obj.t
            leaves = X.heap_leaves(sn, field, T)
            new = [z3.Store(a, o, z3.Const(X.fresh_name('hv_%s_%s' % (sn, field)), s))
                   for a, s in zip(leaves, T.leaf_sorts())]
            X.heap[(sn, field)] = new
        elif base in self.sort_classes:
            kl2, T = X.field_decl(base, field)
            leaves = X.heap_leaves(base, field, T)
            X.heap[(base, field)] = [
                z3.Const(X.fresh_name('hv_%s_%s' % (base, field)), a.sort()) for a in leaves]
        else:
            # path expression, e.g. "self.world._entities"
            node = self.parse(base)
            fr = Frame(None)
            fr.spec = True
            fr.vars.update(env)
            X.spec_mode += 1
            try:
                obj = deref(X.ev(node, fr))
            finally:
                X.spec_mode -= 1
            self.havoc_target(X, '$o.' + field, {'$o': obj})

    def havoc_ghost(self, X, g):
        decl = self.ghost_decls.get(g) if hasattr(self, 'ghost_decls') else None
        if decl is None:
            raise SpecError('undeclared ghost ' + g)
        if callable(decl) and not isinstance(decl, Type):
            decl(X)
            return
        X.ghost[g] = X.fresh(decl, 'g_' + g)
        if isinstance(X.ghost[g], ListV):
            X.assume(X.ghost[g].n >= 0)

    def site_config(self, X, node):
        """Per open-call site settings, keyed by the short name of the function
        under verification, else by a prefix default ('World.')."""
        if X.fn_name in self.sites:
            return self.sites[X.fn_name]
        for pre, cfg in self.site_prefix.items():
            if X.fn_name.startswith(pre):
                return cfg
        return {}

    # ------------------------------------------------------------ rely
    def rely_objects(self, X):
        return list(getattr(X, 'rely_objs', []))

    def havoc_client_state(self, X, obj):
        kl = self.sort_classes[obj.t.sort().name()]
        fields = kl.all_fields()
        names = kl.client_fields if kl.client_fields is not None else list(fields)
        site = self.site_config(X, None)
        if 'client_fields' in site:
            names = site['client_fields']
        for f in names:
            if isinstance(fields[f], ClassLevel):
                continue
            self.havoc_target(X, '$o.' + f, {'$o': obj})

    def havoc_environment(self, X):
        for h in self.env_havocs:
            h(X)

    def rely_extra(self, X, obj):
        kl = self.sort_classes[obj.t.sort().name()]
        out = []
        for name, text in kl.all_rely():
            out.append(self.eval_bool(X, text, {'self': obj}))
        return out

    def note_assumption(self, text):
        if text not in self.assumptions:
            self.assumptions.append(text)

    def global_axioms(self, X):
        return list(getattr(self, 'extra_global_axioms', []))

    def loop_spec(self, X, fn, st):
        qual = getattr(fn, '_qual', None)
        if qual is None:
            return None
        ordinal = loop_ordinal(fn, st)
        return self.loops.get((qual, ordinal))


def loop_ordinal(fn, st):
    n = 0
    for node in ast.walk(fn):
        pass
    # source order: walk statements depth-first
    order = []

    def rec(body):
        for s in body:
            if isinstance(s, (ast.For, ast.While)):
                order.append(s)
            for fld in ('body', 'orelse', 'handlers', 'finalbody'):
                sub = getattr(s, fld, None)
                if isinstance(sub, list):
                    if fld == 'handlers':
                        for h in sub:
                            rec(h.body)
                    elif not isinstance(s, (ast.FunctionDef, ast.ClassDef)) or True:
                        rec([x for x in sub if isinstance(x, ast.stmt)])
    rec(fn.body)
    for i, s in enumerate(order):
        if s is st:
            return i
    return None


def freeze(v):
    """Turn a location read in the old state into a plain value."""
    return deref(v)


# ------------------------------------------------------------ verification

class FunctionRun:
    """All paths of one function under its contract."""

    def __init__(self, spec, qual, inline_all=False, max_paths=4000):
        self.spec, self.qual = spec, qual
        self.inline_all = inline_all
        self.max_paths = max_paths
        self.obligations = {}
        self.paths = 0
        self.exits = []              # (kind, decisions) per path, for covers
        self.assumptions_used = set()
        self.events_samples = []

    def run(self):
        stack = [[]]
        while stack:
            sched = stack.pop()
            X = Executor(self.spec.repo, self.spec, sched)
            X.inline_all = self.inline_all
            X.fn_name = short_name(self.qual)
            self.paths += 1
            if self.paths > self.max_paths:
                raise OutOfSubset('path explosion in %s' % self.qual)
            try:
                kind = self.one_path(X)
            except PathEnd:
                kind = 'pruned'
            self.exits.append((kind, tuple(d[0] for d in X.decisions)))
            self.assumptions_used |= X.assumptions_used
            for ob in X.obligations:
                self.obligations.setdefault(ob.key(), ob)
            for i in range(len(sched), len(X.decisions)):
                choice, alts = X.decisions[i]
                for alt in (alts or []):
                    stack.append([d[0] for d in X.decisions[:i]] + [alt])
        return list(self.obligations.values())

    def one_path(self, X):
        spec = self.spec
        ct = spec.contracts[self.qual]
        m, fn = spec.function_for(self.qual)
        X.lemma_mode = getattr(ct, 'is_lemma', False)
        X.assume_fresh_ids = getattr(ct, 'assume_fresh_ids', False)
        cls = getattr(fn, '_cls', None)
        clsq = cls._qual if cls is not None else None
        outer = None
        if ct.closure_params:
            # free variables of a nested function: symbolic values in an enclosing frame
            outer = Frame(m)
        fr = Frame(m, parent=outer, cls=clsq, fn=fn)
        a = fn.args
        names = [p.arg for p in a.posonlyargs + a.args] + ([a.vararg.arg] if a.vararg else []) \
            + [p.arg for p in a.kwonlyargs] + ([a.kwarg.arg] if a.kwarg else [])
        env = {}
        for n in names:
            T = ct.params.get(n)
            if T is None:
                raise SpecError('%s: no type for parameter %s' % (self.qual, n))
            if callable(T) and not isinstance(T, Type):
                v = T(X, n)
            else:
                v = X.fresh(T, 'p_' + n)
            env[n] = v
            if isinstance(v, ZV) and is_usort(v.t.sort()):
                spec.note_allocated(X, v.t)
        for k, T in ct.params.items():
            if k.startswith('$'):       # ghost parameters
                env[k[1:]] = X.fresh(T, 'gp_' + k[1:]) if isinstance(T, Type) else T(X, k[1:])
        fr.vars.update({n: env[n] for n in names})
        for cn, CT in ct.closure_params.items():
            v = CT(X, cn) if (callable(CT) and not isinstance(CT, Type)) else X.fresh(CT, 'cv_' + cn)
            outer.vars[cn] = v
            env[cn] = v
        if 'self' in env and isinstance(env['self'], ZV) and is_usort(env['self'].t.sort()):
            X.assume(env['self'].t != none_of(env['self'].t.sort()))
        for g in getattr(spec, 'ghost_decls', {}):
            spec.havoc_ghost(X, g)
        for ax in spec.global_axioms(X):
            X.assume(ax)
        for name, text in ct.requires:
            X.assume(spec.eval_bool(X, text, env, m))
        snap = X.snapshot()
        X.entry_env = env
        X.entry_snap = snap
        if getattr(ct, 'ghost_prologue', None) is not None:
            # ghost code run on entry (after old() is fixed); changes ghost state only
            ct.ghost_prologue(X, env)
        yh = getattr(spec, 'yield_hooks', {}).get(self.qual.split('#')[0])
        if yh is not None:
            X.yield_acc = lambda v, yh=yh: yh(X, v)
        X.rely_objs = []
        for rn in getattr(ct, 'rely', None) or ['self']:
            o = env.get(rn)
            if isinstance(o, ZV) and is_usort(o.t.sort()) and \
                    o.t.sort().name() in spec.sort_classes and \
                    spec.sort_classes[o.t.sort().name()].all_invariants():
                X.rely_objs.append(o)
        short = short_name(self.qual)
        X.old_stack.append(snap)
        try:
            try:
                X.run_block(front.strip_docstring(fn), fr)
                result = NONE
            except _Return as r:
                result = r.v
            finally:
                X.old_stack.pop()
        except PyRaise as pr:
            exc = pr.exc
            matched = None
            for ename in ct.raises:
                if X.exc_isinstance(exc.cls, ename):
                    matched = ename
                    break
            if matched is None:
                line = getattr(exc.node, 'lineno', 0)
                nm = '%s:no-implicit-exception[%s]' % (short, exc.cls)
                X.cur_node = exc.node
                X.oblige(nm, z3.BoolVal(False), kind='no-implicit-exception', role='prop',
                         info={'exception': exc.cls, 'line': line}, assume_after=False)
                return 'raise:' + exc.cls
            env2 = dict(env)
            env2['exc'] = exc
            X.final_locals = dict(fr.vars)
            for gname in ct.ghost_results:
                g = X.named_ghosts.get(gname)
                if isinstance(ct.ghost_results[gname], tuple):
                    g = None
                env2[gname] = g if g is not None else self.dummy_ghost(X, ct, gname, env, snap, m)
            X.old_stack.append(snap)
            try:
                for name, text, role in ct.raises[matched]:
                    X.cur_node = exc.node
                    self.check_clause(X, '%s:raises.%s.%s' % (short, matched, name), text,
                                      env2, m, role, 'raises')
                self.check_frame(X, ct, env, snap, short)
                X.oblige(short + ':canary', z3.BoolVal(False), kind='canary', role='aux',
                         assume_after=False)
            finally:
                X.old_stack.pop()
            return 'raise:' + matched
        if isinstance(ct.returns, Type) and not isinstance(result, Loc):
            try:
                result = ct.returns.from_leaves(ct.returns.to_leaves(result))
            except (OutOfSubset, AssertionError):
                pass
        env2 = dict(env)
        env2['result'] = result
        X.final_locals = dict(fr.vars)
        X.exit_result = result
        for n in names:
            if isinstance(env.get(n), (ListV, SetV, DictV)) and n in fr.vars \
                    and isinstance(deref(fr.vars[n]), (ListV, SetV, DictV)):
                env2[n] = deref(fr.vars[n])      # mutated in place: current contents
        snap['params'] = {n: env[n] for n in names if isinstance(env.get(n), (ListV, SetV, DictV))}
        for gname in ct.ghost_results:
            g = X.named_ghosts.get(gname)
            if isinstance(ct.ghost_results[gname], tuple):
                g = None
            env2[gname] = g if g is not None else self.dummy_ghost(X, ct, gname, env, snap, m)
        X.old_stack.append(snap)
        try:
            X.cur_node = fn
            for name, text, role in ct.ensures:
                try:
                    self.check_clause(X, '%s:%s' % (short, name), text, env2, m, role, 'ensures')
                except PathEnd:
                    # never drop obligations silently
                    raise SpecError('%s: path pruned while evaluating postcondition %s' % (short, name))
            self.check_frame(X, ct, env, snap, short)
            for pc_ in getattr(ct, 'path_checks', []):
                pc_(X, short)
            X.oblige(short + ':canary', z3.BoolVal(False), kind='canary', role='aux',
                     assume_after=False)
        finally:
            X.old_stack.pop()
        if len(self.events_samples) < 3:
            self.events_samples.append([str(e[:2]) for e in X.events][:6])
        return 'return'

    def dummy_ghost(self, X, ct, gname, env, snap, m):
        """The ghost result was not produced on this path (loop not reached):
        any enumeration of the declared set will do."""
        gr = ct.ghost_results[gname]
        if isinstance(gr, tuple) and gr[0] == 'named':
            g = X.named_ghosts.get(gr[1])
            return g if g is not None else X.fresh(gr[2], 'gr_' + gname)
        if isinstance(gr, tuple) and gr[0] == 'expr':
            # witness chosen by the callee: a spec expression over the exit state
            X.old_stack.append(snap)
            try:
                env_ = dict(env)
                env_['result'] = getattr(X, 'exit_result', NONE)
                for n_, v_ in getattr(X, 'final_locals', {}).items():
                    env_.setdefault(n_, v_)
                return self.spec.eval_spec(X, gr[1], env_, m)
            finally:
                X.old_stack.pop()
        if isinstance(gr, tuple) and gr[0] == 'local':
            v = getattr(X, 'final_locals', {}).get(gr[1])
            if v is not None and not (isinstance(v, Con) and v.v is None):
                return v
            return X.fresh(gr[2], 'gr_' + gname)
        if isinstance(gr, Type):
            return X.fresh(gr, 'gr_' + gname)
        X.old_stack.append(snap)
        try:
            s = deref(self.spec.eval_spec(X, gr, env, m))
        finally:
            X.old_stack.pop()
        return prelude.set_enumeration(X, s)

    def check_clause(self, X, name, text, env, m, role, kind):
        import re
        mt = re.fullmatch(r"\s*wf\(\s*(\w+)\s*(?:,\s*['\"]([^'\"]*)['\"]\s*)?\)\s*", text)
        if mt and mt.group(1) in env:
            # one named obligation per invariant clause
            obj = deref(env[mt.group(1)])
            for cname, crole, f in self.spec.wf_clauses(X, obj, mt.group(2)):
                oblige_split(X, '%s.%s' % (name, cname), f, kind, crole if crole == 'prop' else role,
                             info={'clause': 'invariant %s' % cname})
            return
        goal = self.spec.eval_bool(X, text, env, m)
        oblige_split(X, name, goal, kind, role, info={'clause': text})

    def check_frame(self, X, ct, env, snap, short):
        """Everything not listed in `modifies` is unchanged."""
        allowed = {}
        whole = set()
        for mtxt in ct.modifies:
            if not isinstance(mtxt, str) or mtxt.startswith('ghost:'):
                continue
            base, field = mtxt.rsplit('.', 1)
            if base in env and isinstance(deref(env[base]), ZV):
                obj = deref(env[base])
                allowed.setdefault((obj.t.sort().name(), field), []).append(obj.t)
            elif base in self.spec.sort_classes:
                whole.add((base, field))
            else:
                whole.add(('?', field))
        if ct.open_effect:
            return
        for key, new in X.heap.items():
            old = snap['heap'].get(key)
            if old is None:
                old = X.initial_leaves(key)
            if key in whole or ('?', key[1]) in whole:
                continue
            if old is not None and all(n.eq(o) for n, o in zip(new, old)):
                continue
            objs = allowed.get(key, [])
            for n, o in zip(new, old):
                exp = o
                for ob in objs:
                    exp = z3.Store(exp, ob, n[ob])
                X.oblige('%s:frame.%s.%s' % (short, key[0], key[1]), n == exp,
                         kind='frame', role='prop', assume_after=False)


_sk = [0]


def split_goal(f, hyps=(), depth=0):
    """Goal -> [(extra hypotheses, atomic subgoal)]: universal quantifiers are
    skolemised by hand, conjunctions and boolean equivalences split, premises of
    implications moved to the hypotheses (z3 proves the pieces far more reliably
    than the whole)."""
    hyps = list(hyps)
    if depth > 12:
        return [(hyps, f)]
    if z3.is_quantifier(f) and f.is_forall():
        vs = []
        for i in range(f.num_vars()):
            _sk[0] += 1
            vs.append(z3.Const('sk!%s!%s!%d' % (f.var_name(i), _sort_id(f.var_sort(i)), _sk[0]),
                               f.var_sort(i)))
        body = z3.substitute_vars(f.body(), *reversed(vs))
        return split_goal(body, hyps, depth + 1)
    if z3.is_and(f):
        out = []
        for c in f.children():
            out.extend(split_goal(c, hyps, depth + 1))
        return out
    if z3.is_implies(f):
        a, b = f.children()
        return split_goal(b, hyps + [a], depth + 1)
    if z3.is_eq(f) and f.arg(0).sort() == z3.BoolSort() and not z3.is_true(f.arg(0)) \
            and not z3.is_false(f.arg(0)) and not z3.is_true(f.arg(1)) and not z3.is_false(f.arg(1)):
        a, b = f.children()
        return split_goal(b, hyps + [a], depth + 1) + split_goal(a, hyps + [b], depth + 1)
    if z3.is_not(f) and z3.is_or(f.arg(0)):
        out = []
        for c in f.arg(0).children():
            out.extend(split_goal(z3.Not(c), hyps, depth + 1))
        return out
    return [(hyps, f)]


def oblige_split(X, name, goal, kind, role, info=None, assume_after=False):
    _sk[0] = 0
    # conjuncts that are literally among the hypotheses of this path (an invariant
    # over untouched state: same heap arrays, hence the same formula) hold by frame
    todo, by_frame = [], 0
    for c in split_conj(goal):
        if c.get_id() in X.pc_atoms or z3.is_true(c):
            by_frame += 1
        else:
            todo.append(c)
    if by_frame:
        X.oblige(name + '[by-frame:%d]' % by_frame, z3.BoolVal(True), kind=kind, role=role,
                 info=info, assume_after=False)
    if not todo:
        if assume_after:
            X.assume(goal)
        return
    goal_ = z3.And(*todo) if len(todo) > 1 else todo[0]
    parts = split_goal(goal_)
    for i, (hy, g) in enumerate(parts):
        nm = name if i == 0 else '%s/%d' % (name, i)
        if hy:
            saved = len(X.pc)
            X.base_len = saved
            X.pc.extend(hy)
            try:
                X.oblige(nm, g, kind=kind, role=role, info=info, assume_after=False)
            finally:
                del X.pc[saved:]
                X.base_len = None
        else:
            X.oblige(nm, g, kind=kind, role=role, info=info, assume_after=False)
    if assume_after:
        X.assume(goal)


def split_conj(f):
    if z3.is_and(f):
        out = []
        for c in f.children():
            out.extend(split_conj(c))
        return out
    return [f]


def short_name(qual):
    parts = qual.split('.')
    # Class.method or function; keep ".setter"
    for i, p in enumerate(parts):
        if p[:1].isupper():
            return '.'.join(parts[i:])
    if parts[-1] == 'setter':
        return '.'.join(parts[-3:])
    return parts[-1]
