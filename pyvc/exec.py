"""Symbolic executor over the real ast.FunctionDef nodes of /repo.

Direct-style interpreter: Python exceptions of the analysed program are Python
exceptions of the interpreter (PyRaise), a symbolic branch consults a decision
schedule, and the driver re-runs the function once per schedule (stateless
depth-first path enumeration).  Every run is deterministic, so symbol names and
obligation names are stable across runs.
"""
import ast
import z3

from . import front
from .sym import (Val, Con, ZV, TupV, SetV, DictV, ListV, OptV, StrV, Loc, NONE,
                  Type, TScalar, TInt, TReal, TBool, TStr, TSet, TDict, TList,
                  TTuple, TOpt, OutOfSubset, deref, coerce_term, ite, usort,
                  none_of, is_usort, type_of_val, list_from_items, is_container,
                  str_const)


# ----------------------------------------------------------------- control flow

class PyRaise(Exception):
    def __init__(self, exc):
        self.exc = exc


class ExcV(Val):
    """Exception instance on the symbolic path."""

    def __init__(self, cls, args=(), fields=None, node=None, implicit=False):
        self.cls = cls                # builtin name or repo class qualname
        self.args = list(args)
        self.fields = dict(fields or {})
        self.node = node
        self.implicit = implicit      # raised by a primitive, not by `raise`

    def __repr__(self):
        return 'ExcV(%s)' % self.cls


class _Return(Exception):
    def __init__(self, v):
        self.v = v


class _Break(Exception):
    pass


class _Continue(Exception):
    pass


class PathEnd(Exception):
    """Path pruned (infeasible / cut by an assumption)."""


BUILTIN_EXC = {
    'BaseException': None, 'Exception': 'BaseException',
    'ArithmeticError': 'Exception', 'ZeroDivisionError': 'ArithmeticError',
    'AssertionError': 'Exception', 'AttributeError': 'Exception',
    'LookupError': 'Exception', 'KeyError': 'LookupError',
    'IndexError': 'LookupError', 'NameError': 'Exception',
    'UnboundLocalError': 'NameError', 'RuntimeError': 'Exception',
    'NotImplementedError': 'RuntimeError', 'StopIteration': 'Exception',
    'TypeError': 'Exception', 'ValueError': 'Exception',
    'ImportError': 'Exception', 'ModuleNotFoundError': 'ImportError',
    'OSError': 'Exception', 'FileNotFoundError': 'OSError',
    # stand-ins for "some exception class the code does not name"
    '$OtherException': 'Exception', '$OtherBaseException': 'BaseException',
}


# --------------------------------------------------------------- function values

class Closure(Val):
    def __init__(self, fn, frame, module, cls=None, kind=None):
        self.fn, self.frame, self.module, self.cls, self.kind = fn, frame, module, cls, kind

    def __repr__(self):
        return 'Closure(%s)' % getattr(self.fn, 'name', 'lambda')


class BoundMethod(Val):
    def __init__(self, recv, func):
        self.recv, self.func = recv, func


class Builtin(Val):
    def __init__(self, name, fn):
        self.name, self.fn = name, fn

    def __repr__(self):
        return 'Builtin(%s)' % self.name


class ClassV(Val):
    def __init__(self, qual):
        self.qual = qual

    def __repr__(self):
        return 'ClassV(%s)' % self.qual


class ModuleV(Val):
    def __init__(self, name):
        self.name = name


class SuperV(Val):
    def __init__(self, cls, obj):
        self.cls, self.obj = cls, obj


class OpenFn(Val):
    """A callable the verifier cannot see (callback, key function, factory)."""

    def __init__(self, term, kind='fn', pure=False, name=None):
        self.term, self.kind, self.pure, self.name = term, kind, pure, name


class Frame:
    def __init__(self, module, parent=None, cls=None, fn=None):
        self.vars = {}
        self.module, self.parent, self.cls, self.fn = module, parent, cls, fn
        self.spec = False

    def lookup(self, name):
        f = self
        while f is not None:
            if name in f.vars:
                return f, f.vars[name]
            f = f.parent
        return None, None


class Obligation:
    def __init__(self, name, kind, role, hyps, goal, where, decisions, info=None):
        self.name, self.kind, self.role = name, kind, role
        self.hyps, self.goal = list(hyps), goal
        self.where = where
        self.decisions = tuple(decisions)
        self.info = info or {}
        self.result = None
        self.seconds = 0.0
        self.backend = None

    def key(self):
        return (self.name, self.where, self.decisions)


_hq_cache = {}


def _has_quantifier(f):
    k = f.get_id()
    if k in _hq_cache:
        return _hq_cache[k]
    seen = set()
    stack = [f]
    res = False
    while stack:
        g = stack.pop()
        if g.get_id() in seen:
            continue
        seen.add(g.get_id())
        if z3.is_quantifier(g):
            res = True
            break
        if z3.is_app(g):
            stack.extend(g.children())
    _hq_cache[k] = res
    return res


def z3bool(v):
    return isinstance(v, ZV) and v.t.sort() == z3.BoolSort()


# ------------------------------------------------------------------- executor

class Executor:
    def __init__(self, repo, spec, schedule=(), feas_timeout=400):
        self.repo = repo
        self.spec = spec
        self.schedule = list(schedule)
        self.decisions = []          # (choice, [feasible alternatives])
        self.pc = []
        self.heap = {}               # (sortname, field) -> [Type, leaves]
        self.ghost = {}
        self.obligations = []
        self.counter = {}
        self.fn_name = '?'
        self.depth = 0
        self.spec_mode = 0
        self.feas_timeout = feas_timeout
        self.events = []             # contract-call / open-call events on this path
        self.old_stack = []
        self.trace = []
        self.cur_node = None
        self.assumptions_used = set()
        self.yield_acc = None
        self.loop_ghost = {}
        self.bounded_unroll = False
        self.inline_all = False
        self.lemma_mode = False
        self.assert_count = 0
        self.named_ghosts = {}
        self.list_info = {}          # id of a list's element array -> provenance (filter maps)
        self.pc_atoms = set()
        self.base_len = None
        from . import prelude
        self.prelude = prelude
        self.builtins = prelude.make_builtins(self)

    # ---------------------------------------------------------------- basics
    def fresh_name(self, base):
        n = self.counter.get(base, 0)
        self.counter[base] = n + 1
        return '%s!%d' % (base, n)

    def fresh(self, T, base):
        v = T.fresh(self.fresh_name(base))
        self.assume_shape(v)
        return v

    def assume_shape(self, v):
        """Lengths of lists are non-negative."""
        if isinstance(v, ListV):
            self.assume(v.n >= 0)
        elif isinstance(v, TupV):
            for x in v.items:
                self.assume_shape(x)
        elif isinstance(v, OptV):
            self.assume_shape(v.val)

    def assume(self, f):
        if isinstance(f, bool):
            if not f:
                raise PathEnd()
            return
        if z3.is_false(f):
            raise PathEnd()
        if not z3.is_true(f):
            # top-level conjunctions are stored conjunct by conjunct (relevance
            # filtering and frame reasoning work per conjunct)
            stack = [f]
            flat = []
            while stack:
                g = stack.pop()
                if z3.is_and(g):
                    stack.extend(reversed(g.children()))
                elif z3.is_false(g):
                    raise PathEnd()
                elif not z3.is_true(g):
                    flat.append(g)
            for g in flat:
                if g.get_id() not in self.pc_atoms:
                    self.pc.append(g)
                    self.pc_atoms.add(g.get_id())

    def oblige(self, name, goal, kind='assert', role='aux', info=None, assume_after=True):
        if isinstance(goal, bool):
            goal = z3.BoolVal(goal)
        where = getattr(self.cur_node, 'lineno', 0)
        ob = Obligation(name, kind, role, self.pc, goal, where,
                        [d[0] for d in self.decisions], info)
        ob.base_len = self.base_len if self.base_len is not None else len(self.pc)
        self.obligations.append(ob)
        # after checking, the fact may be used on the rest of the path
        if assume_after:
            self.assume(goal)

    def feasible(self, f):
        """Sound pruning only: the path is dropped when the QUANTIFIER-FREE part
        of the path condition already contradicts the branch (quantified facts are
        ignored here: they mostly time out and pruning is an optimisation)."""
        s = z3.Solver()
        s.set('timeout', self.feas_timeout)
        for p in self.pc:
            if not _has_quantifier(p):
                s.add(p)
        s.add(f)
        r = s.check()
        return r != z3.unsat

    def choose(self, conds, tag=''):
        """n-ary decision: conds are z3 Bools (or Python bools), mutually
        exclusive; returns the chosen index and adds its condition to pc."""
        conds = [z3.BoolVal(c) if isinstance(c, bool) else c for c in conds]
        i = len(self.decisions)
        if i < len(self.schedule):
            choice = self.schedule[i]
            self.decisions.append((choice, None))
        else:
            feas = [k for k, c in enumerate(conds)
                    if not z3.is_false(c) and (z3.is_true(c) or self.feasible(c))]
            if not feas:
                raise PathEnd()
            choice = feas[0]
            self.decisions.append((choice, feas[1:]))
        self.assume(conds[choice])
        return choice

    def branch(self, cond):
        """Follow a symbolic boolean."""
        if isinstance(cond, bool):
            return cond
        cond = z3.simplify(cond)
        if z3.is_true(cond):
            return True
        if z3.is_false(cond):
            return False
        return self.choose([cond, z3.Not(cond)]) == 0

    def unsupported(self, what, node=None):
        node = node or self.cur_node
        raise OutOfSubset('%s at %s:%s' % (what, self.fn_name,
                                           getattr(node, 'lineno', '?')))

    def raise_(self, cls, *args, implicit=True, node=None):
        raise PyRaise(ExcV(cls, [a if isinstance(a, Val) else Con(a) for a in args],
                           node=node or self.cur_node, implicit=implicit))

    # ----------------------------------------------------------------- heap
    def field_decl(self, sortname, field):
        kl = self.spec.sort_classes.get(sortname)
        while kl is not None:
            if field in kl.fields:
                return kl, kl.fields[field]
            kl = kl.parent
        return None, None

    def heap_leaves(self, sn, field, T):
        """Field arrays are indexed by the object's own sort: an inherited field
        has one array per subclass sort (contracts are polymorphic in `self`)."""
        key = (sn, field)
        if key not in self.heap:
            self.heap[key] = self.initial_leaves(key)
        return self.heap[key]

    def initial_leaves(self, key):
        kl, T = self.field_decl(key[0], key[1])
        S = usort(key[0])
        return [z3.Const('H_%s_%s.%d' % (key[0], key[1], i), z3.ArraySort(S, s))
                for i, s in enumerate(T.leaf_sorts())]

    def read_field(self, obj_t, field):
        sn = obj_t.sort().name()
        kl, T = self.field_decl(sn, field)
        if kl is None:
            return None
        if isinstance(T, ClassLevel):
            return T.read(self, obj_t)
        o = obj_t
        if isinstance(T, (TSet, TDict, TList)):
            def get(sn=sn, field=field, T=T, o=o):
                return T.from_leaves([z3.simplify(a[o]) for a in self.heap_leaves(sn, field, T)])

            def set_(v, sn=sn, field=field, T=T, o=o):
                self.write_field_raw(sn, field, T, o, v)
            return Loc(get, set_, T, '%s.%s' % (obj_t, field))
        v = T.from_leaves([a[o] for a in self.heap_leaves(sn, field, T)])
        if isinstance(v, ZV):
            self.spec.note_allocated(self, v.t)
        return v

    def typed_store(self, what, thunk):
        """Run a store; a value whose sort the declared field/container type does
        not admit (e.g. a strong handler reference where only weak references are
        declared) is a failed ownership obligation, not a checker error."""
        try:
            return thunk()
        except OutOfSubset as e:
            if 'sort mismatch' not in str(e) \
                    and 'cannot coerce' not in str(e) and 'cannot pack' not in str(e):
                raise
            self.oblige('%s:stored-value-sort[%s]' % (self.fn_name, what), z3.BoolVal(False),
                        kind='ownership', role='prop', assume_after=False,
                        info={'detail': str(e)[:200]})
            raise PathEnd()

    def adapt(self, v, T):
        """A tuple/list built from a duplicate-free source stored where the model
        keeps a set (see specs: tuple of dict items)."""
        dv = deref(v)
        if isinstance(T, TSet) and isinstance(dv, ListV):
            return self.prelude.list_to_set(self, dv, T.K)
        return v

    def write_field_raw(self, sn, field, T, o, v):
        v = self.adapt(v, T)
        leaves = self.heap_leaves(sn, field, T)
        lv = T.to_leaves(v)
        # keep heap terms flat: store-over-store / select-over-store are rewritten
        # away here (deeply nested Store chains make the solver much less robust)
        self.heap[(sn, field)] = [z3.simplify(z3.Store(a, o, z3.simplify(l)))
                                  for a, l in zip(leaves, lv)]

    def write_field(self, obj_t, field, v):
        sn = obj_t.sort().name()
        kl, T = self.field_decl(sn, field)
        if kl is None:
            # a store the contracts know nothing about: reported as a frame
            # violation of the function under verification, not skipped
            self.oblige('%s:frame.undeclared-field.%s.%s' % (self.fn_name, sn, field),
                        z3.BoolVal(False), kind='frame', role='prop', assume_after=False)
            return
        if isinstance(T, ClassLevel):
            self.unsupported('store to class-level field %s.%s' % (sn, field))
        if isinstance(v, Loc) and isinstance(T, (TSet, TDict, TList)):
            self.unsupported('aliasing store of a heap container into %s.%s' % (sn, field))
        self.typed_store('%s.%s' % (sn, field),
                         lambda: self.write_field_raw(sn, field, T, obj_t, v))

    def snapshot(self):
        return {'heap': dict(self.heap), 'ghost': dict(self.ghost)}

    # ---------------------------------------------------------- truthiness
    def truth(self, v):
        """Python truthiness as a z3 Bool or a Python bool."""
        v = deref(v)
        if isinstance(v, Con):
            if isinstance(v.v, dict):
                return bool(v.v)
            return bool(v.v)
        if isinstance(v, ZV):
            s = v.t.sort()
            if s == z3.BoolSort():
                return v.t
            if s == z3.IntSort() or s == z3.RealSort():
                return v.t != 0
            if s == z3.StringSort():
                return z3.Length(v.t) != 0
            if is_usort(s):
                # None is falsy; a user object may define __bool__/__len__ (its
                # truthiness is an uninterpreted predicate) unless its class is
                # declared to use the default (always true)
                kl = self.spec.sort_classes.get(s.name())
                if s.name() in ('Type', 'Method', 'Ref') or (kl is not None and kl.default_truthiness):
                    return v.t != none_of(s)
                tr = z3.Function('truthy_' + s.name(), s, z3.BoolSort())
                return z3.And(v.t != none_of(s), tr(v.t))
        if isinstance(v, TupV):
            return len(v.items) > 0
        if isinstance(v, SetV):
            return v.arr != z3.K(v.K.sort, z3.BoolVal(False))
        if isinstance(v, DictV):
            return v.dom != z3.K(v.K.sort, z3.BoolVal(False))
        if isinstance(v, ListV):
            return v.n != 0
        if isinstance(v, OptV):
            return z3.And(z3.Not(v.isnone), self._z(self.truth(v.val)))
        if isinstance(v, (Closure, BoundMethod, Builtin, ClassV, OpenFn, ExcV)):
            return True
        self.unsupported('truthiness of %r' % (v,))

    @staticmethod
    def _z(b):
        return z3.BoolVal(b) if isinstance(b, bool) else b

    def test(self, v):
        return self.branch(self.truth(v))

    # ---------------------------------------------------------- statements
    def run_block(self, stmts, fr):
        for st in stmts:
            self.ex(st, fr)

    def ex(self, st, fr):
        self.cur_node = st
        m = getattr(self, 'st_' + type(st).__name__, None)
        if m is None:
            self.unsupported('statement ' + type(st).__name__, st)
        m(st, fr)

    def st_Pass(self, st, fr):
        pass

    def st_Expr(self, st, fr):
        if isinstance(st.value, ast.Constant):
            return          # docstring / bare literal
        self.ev(st.value, fr)

    def st_Return(self, st, fr):
        raise _Return(self.ev(st.value, fr) if st.value is not None else NONE)

    def st_Break(self, st, fr):
        raise _Break()

    def st_Continue(self, st, fr):
        raise _Continue()

    def st_Assert(self, st, fr):
        if self.lemma_mode and fr.fn is not None and getattr(fr.fn, '_qual', '').startswith('lemmas_'):
            g = self._z(self.truth(self.ev(st.test, fr)))
            self.assert_count += 1
            self.cur_node = st
            from .spec import split_conj
            for i, c in enumerate(split_conj(g)):
                self.oblige('lemma.%s:assert%d%s' % (fr.fn.name, self.assert_count,
                                                    '/%d' % i if i else ''),
                            c, kind='lemma', role='prop')
            return
        if not self.test(self.ev(st.test, fr)):
            self.cur_node = st
            self.raise_('AssertionError', implicit=False, node=st)

    def st_Raise(self, st, fr):
        if st.exc is None:
            self.unsupported('bare raise', st)
        v = self.ev(st.exc, fr)
        if isinstance(v, ClassV):
            v = self.call(v, [], {}, st)
        if isinstance(v, ExcV):
            v.node = st
            v.implicit = False
            raise PyRaise(v)
        if isinstance(v, ZV) and is_usort(v.t.sort()):
            # exception object of a repo class modelled as a sort
            raise PyRaise(ExcV(self.spec.sort_classes[v.t.sort().name()].qual,
                               fields={'$obj': v}, node=st, implicit=False))
        self.unsupported('raise of %r' % (v,), st)

    def st_If(self, st, fr):
        # `if x is None: x = <attribute or name>` (option fall-back): one path with an
        # if-then-else value instead of two paths (same semantics: the right-hand side is a
        # pure read)
        if not st.orelse and len(st.body) == 1 and isinstance(st.body[0], ast.Assign) \
                and len(st.body[0].targets) == 1 and isinstance(st.body[0].targets[0], ast.Name) \
                and isinstance(st.test, ast.Compare) and len(st.test.ops) == 1 \
                and isinstance(st.test.ops[0], ast.Is) and isinstance(st.test.left, ast.Name) \
                and st.test.left.id == st.body[0].targets[0].id \
                and isinstance(st.test.comparators[0], ast.Constant) and st.test.comparators[0].value is None \
                and self._pure_read(st.body[0].value):
            cur = deref(self.ev(st.test.left, fr))
            if isinstance(cur, (ZV, OptV)):
                c = self.truth(self.ev(st.test, fr))
                if not isinstance(c, bool):
                    try:
                        new = self.ev(st.body[0].value, fr)
                        from .sym import ite as _ite
                        merged = _ite(self._z(c), new, cur)
                        self.assign(st.body[0].targets[0], merged, fr)
                        return
                    except OutOfSubset:
                        pass
        if self.test(self.ev(st.test, fr)):
            self.run_block(st.body, fr)
        else:
            self.run_block(st.orelse, fr)

    @staticmethod
    def _pure_read(e):
        while isinstance(e, ast.Attribute):
            e = e.value
        return isinstance(e, ast.Name)

    def st_FunctionDef(self, st, fr):
        fr.vars[st.name] = Closure(st, fr, fr.module)

    def st_Assign(self, st, fr):
        v = self.ev(st.value, fr)
        for t in st.targets:
            self.assign(t, v, fr)

    def st_AnnAssign(self, st, fr):
        if st.value is not None:
            self.assign(st.target, self.ev(st.value, fr), fr)

    def st_AugAssign(self, st, fr):
        tgt = st.target
        cur_loc = None
        if isinstance(tgt, ast.Name):
            cur = self.ev(tgt, fr)
        else:
            cur = self.ev(tgt, fr)
        rhs = self.ev(st.value, fr)
        curv = deref(cur)
        if isinstance(st.op, ast.BitOr):
            h = self.spec.inplace_or_hook(self, curv, rhs, st)
            if h:
                return
        if isinstance(st.op, ast.Add) and isinstance(curv, ListV):
            # list += iterable: in-place extend
            new = self.prelude.list_extend(self, curv, rhs)
            self.store_container(tgt, cur, new, fr)
            return
        v = self.binop(st.op, cur, rhs, st)
        self.assign(tgt, v, fr)

    def store_container(self, tgt, cur, new, fr):
        if isinstance(cur, Loc):
            cur.set(new)
        elif isinstance(tgt, ast.Name):
            f, _ = fr.lookup(tgt.id)
            (f or fr).vars[tgt.id] = new
        else:
            self.assign(tgt, new, fr)

    def st_Delete(self, st, fr):
        for t in st.targets:
            if isinstance(t, ast.Subscript):
                cont = self.ev_ref(t.value, fr)
                key = self.ev(t.slice, fr)
                self.prelude.del_item(self, cont, key, t)
            elif isinstance(t, ast.Name):
                f, _ = fr.lookup(t.id)
                if f is None:
                    self.raise_('NameError', t.id)
                del f.vars[t.id]
            else:
                self.unsupported('del target', st)

    def assign(self, tgt, v, fr):
        if isinstance(tgt, ast.Name):
            if isinstance(v, Loc) and not isinstance(v.T, (TSet, TDict, TList)):
                v = deref(v)
            fr.vars[tgt.id] = v
        elif isinstance(tgt, (ast.Tuple, ast.List)):
            items = self.iter_concrete(v, tgt)
            if any(isinstance(e, ast.Starred) for e in tgt.elts):
                self.unsupported('star-unpacking target', tgt)
            if len(items) != len(tgt.elts):
                self.raise_('ValueError', 'unpack')
            for e, x in zip(tgt.elts, items):
                self.assign(e, x, fr)
        elif isinstance(tgt, ast.Attribute):
            obj = deref(self.ev(tgt.value, fr))
            self.set_attr(obj, tgt.attr, v, tgt)
        elif isinstance(tgt, ast.Subscript):
            cont = self.ev_ref(tgt.value, fr)
            if isinstance(tgt.slice, ast.Slice):
                self.prelude.set_slice(self, cont, tgt.slice, v, fr, tgt)
                return
            key = self.ev(tgt.slice, fr)
            self.prelude.set_item(self, cont, key, v, tgt)
        else:
            self.unsupported('assignment target ' + type(tgt).__name__, tgt)

    def set_attr(self, obj, attr, v, node):
        if isinstance(obj, ZV) and is_usort(obj.t.sort()):
            sn = obj.t.sort().name()
            kl = self.spec.sort_classes.get(sn)
            # property setter defined in the repo class?
            if kl is not None and kl.qual:
                r = self.repo.find_method(kl.qual, attr)
                if r is not None:
                    m, fn, q = r
                    key = fn._qual
                    setter = self.find_setter(kl.qual, attr)
                    if setter is not None:
                        self.null_check(obj, node)
                        sm, sfn, sq = setter
                        self.call(BoundMethod(obj, Closure(sfn, None, sm, cls=sq)),
                                  [v], {}, node)
                        return
            hk = kl.attr_store_hooks.get(attr) if kl is not None else None
            if hk is not None:
                hk(self, obj, v, node)
                return
            self.null_check(obj, node)
            self.write_field(obj.t, attr, v)
            return
        if isinstance(obj, ExcV):
            obj.fields[attr] = v
            return
        if isinstance(obj, ClassV):
            hook = self.spec.class_attr_store.get((obj.qual, attr))
            if hook:
                hook(self, obj, v)
                return
        self.unsupported('attribute store on %r' % (obj,), node)

    def find_setter(self, class_qual, attr):
        for q in self.repo.mro(class_qual):
            try:
                m, c = self.repo.klass(q)
            except front.FrontError:
                continue
            rest = q[len(m.name) + 1:]
            key = rest + '.' + attr + '.setter'
            if key in m.functions:
                return m, m.functions[key], q
        return None

    def null_check(self, obj, node):
        """obj.attr on None raises AttributeError."""
        if self.spec_mode:
            return
        if isinstance(obj, ZV) and is_usort(obj.t.sort()):
            if self.branch(obj.t == none_of(obj.t.sort())):
                self.raise_('AttributeError', 'NoneType', node=node)

    # ----------------------------------------------------------- try/except
    def exc_matches(self, exc, handler_type, fr):
        if handler_type is None:
            return True
        hv = self.ev(handler_type, fr)
        names = []
        for h in (hv.items if isinstance(hv, TupV) else [hv]):
            if isinstance(h, ClassV):
                names.append(h.qual)
            elif isinstance(h, Builtin):
                names.append(h.name)
            else:
                self.unsupported('except clause type %r' % (h,))
        return any(self.exc_isinstance(exc.cls, n) for n in names)

    def exc_isinstance(self, cls, base):
        c = cls
        seen = 0
        while c is not None and seen < 20:
            seen += 1
            if c == base:
                return True
            if c in BUILTIN_EXC:
                c = BUILTIN_EXC[c]
            else:
                try:
                    m, cd = self.repo.klass(c)
                except front.FrontError:
                    return False
                if not cd.bases:
                    return False
                c = self.repo.resolve_class(m, cd.bases[0])
        return False

    def st_Try(self, st, fr):
        if st.finalbody:
            # the finally block runs on every way out (normal, exception, return,
            # break, continue); PathEnd is not a way out of the program
            try:
                self._try_core(st, fr)
            except PathEnd:
                raise
            except BaseException:
                self.run_block(st.finalbody, fr)
                raise
            self.run_block(st.finalbody, fr)
            return
        self._try_core(st, fr)

    def _try_core(self, st, fr):
        try:
            self.run_block(st.body, fr)
        except PyRaise as pr:
            for h in st.handlers:
                if self.exc_matches(pr.exc, h.type, fr):
                    if h.name:
                        fr.vars[h.name] = pr.exc
                    self.run_block(h.body, fr)
                    return
            raise
        else:
            self.run_block(st.orelse, fr)

    # ---------------------------------------------------------------- loops
    def st_While(self, st, fr):
        from . import loops
        loops.exec_while(self, st, fr)

    def st_For(self, st, fr):
        from . import loops
        loops.exec_for(self, st, fr)

    def iter_concrete(self, v, node=None):
        """Items of a value whose length is known statically."""
        v = deref(v)
        if isinstance(v, TupV):
            return list(v.items)
        if isinstance(v, ZV) and v.t.sort().kind() == z3.Z3_DATATYPE_SORT:
            from . import theory
            ts = theory.tuple_sort_of(v.t.sort())
            if ts is not None:
                return ts.unpack(v.t)
        if isinstance(v, Con):
            if isinstance(v.v, (tuple, list)):
                return [x if isinstance(x, Val) else Con(x) for x in v.v]
            if isinstance(v.v, str):
                return [Con(c) for c in v.v]
            if isinstance(v.v, range):
                return [Con(i) for i in v.v]
            if isinstance(v.v, dict):
                return [Con(k) for k in v.v]
        self.unsupported('iteration over a value of unknown length: %r' % (v,), node)

    def has_concrete_len(self, v):
        v = deref(v)
        if isinstance(v, ZV) and v.t.sort().kind() == z3.Z3_DATATYPE_SORT:
            return True
        return isinstance(v, TupV) or (isinstance(v, Con) and isinstance(
            v.v, (tuple, list, str, range, dict)))

    # ----------------------------------------------------------- expressions
    def ev(self, node, fr):
        m = getattr(self, 'ev_' + type(node).__name__, None)
        if m is None:
            self.unsupported('expression ' + type(node).__name__, node)
        prev = self.cur_node
        if hasattr(node, 'lineno'):
            self.cur_node = node
        try:
            return m(node, fr)
        finally:
            self.cur_node = prev

    def ev_Constant(self, node, fr):
        return Con(node.value)

    def ev_Name(self, node, fr):
        name = node.id
        f, v = fr.lookup(name)
        if f is not None:
            return v
        # function-local name assigned somewhere but not yet: UnboundLocalError
        if fr.fn is not None and not fr.spec and name in assigned_names(fr.fn):
            self.raise_('UnboundLocalError', name, node=node)
        v = self.lookup_global(fr.module, name)
        if v is not None:
            return v
        if name in self.builtins:
            return self.builtins[name]
        if fr.spec or self.lemma_mode:
            v = self.spec.lookup_spec_name(self, name)
            if v is not None:
                return v
        self.raise_('NameError', name, node=node)

    def lookup_global(self, module, name):
        if module is None:
            return None
        ov = self.spec.global_override.get((module.name, name))
        if ov is not None:
            return ov(self)
        if name in module.functions:
            return Closure(module.functions[name], None, module)
        if name in module.classes:
            return ClassV(module.name + '.' + name)
        if name in module.imports:
            tgt = self.repo.canonical(module.imports[name])
            return self.resolve_dotted(tgt)
        if name in module.globals:
            g = module.globals[name]
            if isinstance(g, ast.Constant):
                return Con(g.value)
            if isinstance(g, ast.Name):
                return self.lookup_global(module, g.id) or self.builtins.get(g.id)
            return self.spec.global_value(self, module, name, g)
        # star imports
        for node in module.tree.body:
            if isinstance(node, ast.ImportFrom) and any(a.name == '*' for a in node.names):
                tgt = self.repo.canonical(module.name + '.' + name)
                if tgt != module.name + '.' + name:
                    return self.resolve_dotted(tgt)
        return None

    def resolve_dotted(self, dotted):
        if dotted in self.repo.modules:
            return ModuleV(dotted)
        try:
            m, rest = self.repo.split(dotted)
        except front.FrontError:
            m = None
        if m is not None and rest:
            if rest in m.classes:
                return ClassV(dotted)
            if rest in m.functions:
                return Closure(m.functions[rest], None, m)
        head = dotted.split('.')[0]
        if head in self.repo.modules and '.' in dotted:
            # global of a repo module
            mod = '.'.join(dotted.split('.')[:-1])
            if mod in self.repo.modules:
                v = self.lookup_global(self.repo.modules[mod], dotted.split('.')[-1])
                if v is not None:
                    return v
        v = self.prelude.external(self, dotted)
        if v is not None:
            return v
        if dotted.split('.')[0] in ('typing', 'abc') and '.' in dotted:
            return ClassV(dotted.split('.')[-1])
        return ModuleV(dotted)

    def ev_NamedExpr(self, node, fr):
        v = self.ev(node.value, fr)
        self.assign(node.target, v, fr)
        return v

    def ev_Tuple(self, node, fr):
        return TupV(self.ev_elts(node.elts, fr))

    def ev_List(self, node, fr):
        return TupV(self.ev_elts(node.elts, fr), is_list=True)

    def ev_elts(self, elts, fr):
        out = []
        for e in elts:
            if isinstance(e, ast.Starred):
                out.extend(self.iter_concrete(self.ev(e.value, fr), e))
            else:
                out.append(self.ev(e, fr))
        return out

    def ev_Set(self, node, fr):
        self.unsupported('set display', node)

    def ev_Dict(self, node, fr):
        if not node.keys:
            return Con({})
        d = {}
        for k, v in zip(node.keys, node.values):
            if k is None:
                self.unsupported('dict unpacking', node)
            kv = self.ev(k, fr)
            if not isinstance(kv, Con):
                self.unsupported('dict display with symbolic key', node)
            d[kv.v] = self.ev(v, fr)
        return Con(d)

    def ev_JoinedStr(self, node, fr):
        parts = []
        allc = True
        for p in node.values:
            if isinstance(p, ast.Constant):
                parts.append(p.value)
            else:
                try:
                    v = deref(self.ev(p.value, fr))
                except PyRaise:
                    raise
                if isinstance(v, Con) and not isinstance(v.v, dict):
                    parts.append(format(v.v))
                else:
                    parts.append(v)
                    allc = False
        if allc:
            return Con(''.join(parts))
        return StrV(parts)

    def ev_Lambda(self, node, fr):
        return Closure(node, fr, fr.module)

    def ev_IfExp(self, node, fr):
        if self.spec_mode:
            c = self.truth(self.ev(node.test, fr))
            if isinstance(c, bool):
                return self.ev(node.body if c else node.orelse, fr)
            return ite(c, self.ev(node.body, fr), self.ev(node.orelse, fr))
        if self.test(self.ev(node.test, fr)):
            return self.ev(node.body, fr)
        return self.ev(node.orelse, fr)

    def ev_BoolOp(self, node, fr):
        if self.spec_mode:
            # logical connective, no forking
            vals = [self._z(self.truth(self.ev(v, fr))) for v in node.values]
            return ZV(z3.And(*vals) if isinstance(node.op, ast.And) else z3.Or(*vals))
        v = None
        for i, e in enumerate(node.values):
            v = self.ev(e, fr)
            if i == len(node.values) - 1:
                return v
            t = self.test(v)
            if isinstance(node.op, ast.And) and not t:
                return v
            if isinstance(node.op, ast.Or) and t:
                return v
        return v

    def ev_UnaryOp(self, node, fr):
        v = deref(self.ev(node.operand, fr))
        if isinstance(node.op, ast.Not):
            t = self.truth(v)
            return Con(not t) if isinstance(t, bool) else ZV(z3.Not(t))
        if isinstance(node.op, ast.USub):
            if isinstance(v, Con):
                return Con(-v.v)
            if isinstance(v, TupV) and v.cls:
                return self.call_dunder(v, '__neg__', [], node)
            return ZV(-self.num(v, node))
        if isinstance(node.op, ast.UAdd):
            if isinstance(v, TupV) and v.cls:
                return self.call_dunder(v, '__pos__', [], node)
            return v
        if isinstance(node.op, ast.Invert):
            if isinstance(v, TupV) and v.cls:
                return self.call_dunder(v, '__invert__', [], node)
        self.unsupported('unary operator', node)

    def num(self, v, node=None):
        v = deref(v)
        if isinstance(v, ZV) and v.t.sort() in (z3.IntSort(), z3.RealSort()):
            return v.t
        if isinstance(v, ZV) and v.t.sort() == z3.BoolSort():
            return z3.If(v.t, z3.IntVal(1), z3.IntVal(0))
        if isinstance(v, Con) and isinstance(v.v, (int, float)) and not isinstance(v.v, bool):
            return coerce_term(v, z3.RealSort() if isinstance(v.v, float) else z3.IntSort())
        if isinstance(v, Con) and isinstance(v.v, bool):
            return z3.IntVal(int(v.v))
        if isinstance(v, OptV):
            if not self.spec_mode and self.branch(v.isnone):
                self.raise_('TypeError', 'NoneType in arithmetic', node=node)
            return self.num(v.val, node)
        if not self.spec_mode:
            self.raise_('TypeError', 'unsupported operand %r' % (v,), node=node)
        self.unsupported('numeric use of %r' % (v,), node)

    def call_dunder(self, recv, name, args, node):
        r = self.repo.find_method(recv.cls, name)
        if r is None:
            self.raise_('TypeError', 'no %s' % name, node=node)
        m, fn, q = r
        return self.call(BoundMethod(recv, Closure(fn, None, m, cls=q)), args, {}, node)

    DUNDER = {ast.Add: '__add__', ast.Sub: '__sub__', ast.Mult: '__mul__',
              ast.Div: '__truediv__', ast.MatMult: '__matmul__'}
    RDUNDER = {ast.Add: '__radd__'}

    def ev_BinOp(self, node, fr):
        a = self.ev(node.left, fr)
        b = self.ev(node.right, fr)
        return self.binop(node.op, a, b, node)

    def binop(self, op, a, b, node):
        a, b = deref(a), deref(b)
        top = type(op)
        if isinstance(a, TupV) and a.cls and top in self.DUNDER \
                and self.repo.find_method(a.cls, self.DUNDER[top]):
            return self.call_dunder(a, self.DUNDER[top], [b], node)
        if isinstance(b, TupV) and b.cls and top in self.RDUNDER \
                and self.repo.find_method(b.cls, self.RDUNDER[top]):
            return self.call_dunder(b, self.RDUNDER[top], [a], node)
        if isinstance(a, Con) and isinstance(b, Con) and not isinstance(a.v, dict):
            try:
                return Con(native_binop(op, a.v, b.v))
            except ZeroDivisionError:
                self.raise_('ZeroDivisionError', node=node)
            except TypeError:
                self.raise_('TypeError', node=node)
        if isinstance(a, TupV) and isinstance(b, TupV) and top is ast.Add:
            return TupV(a.items + b.items, is_list=a.is_list)
        if isinstance(a, Con) and isinstance(a.v, tuple) and isinstance(b, TupV) and top is ast.Add:
            return TupV([Con(x) for x in a.v] + b.items)
        if isinstance(a, TupV) and isinstance(b, Con) and isinstance(b.v, tuple) and top is ast.Add:
            return TupV(a.items + [Con(x) for x in b.v])
        if isinstance(a, ListV) and top is ast.Add:
            return self.prelude.list_extend(self, a, b)
        if top is ast.Mod and isinstance(a, Con) and isinstance(a.v, str):
            return StrV([a.v, b])
        if top is ast.Add and (isinstance(a, StrV) or isinstance(b, StrV)
                               or (isinstance(a, Con) and isinstance(a.v, str))
                               or (isinstance(b, Con) and isinstance(b.v, str))):
            return self.prelude.str_concat(self, a, b)
        if top is ast.BitOr:
            return self.prelude.bitor(self, a, b, node)
        x, y = self.num(a, node), self.num(b, node)
        isreal = x.sort() == z3.RealSort() or y.sort() == z3.RealSort()
        if isreal:
            x, y = coerce_term(ZV(x), z3.RealSort()), coerce_term(ZV(y), z3.RealSort())
        if top is ast.Add:
            return ZV(x + y)
        if top is ast.Sub:
            return ZV(x - y)
        if top is ast.Mult:
            return ZV(x * y)
        if top is ast.Div:
            x, y = coerce_term(ZV(x), z3.RealSort()), coerce_term(ZV(y), z3.RealSort())
            if not self.spec_mode and self.branch(y == 0):
                self.raise_('ZeroDivisionError', node=node)
            return ZV(x / y)
        if top is ast.FloorDiv:
            if isreal:
                if not self.spec_mode and self.branch(y == 0):
                    self.raise_('ZeroDivisionError', node=node)
                return ZV(z3.ToReal(z3.ToInt(x / y)))
            if not self.spec_mode and self.branch(y == 0):
                self.raise_('ZeroDivisionError', node=node)
            # Python floor division; z3 div is Euclidean (floor for y > 0)
            q = x / y
            return ZV(z3.If(y > 0, q, z3.If(x % y == 0, q, q - 1)))
        if top is ast.Mod:
            if not self.spec_mode and self.branch(y == 0):
                self.raise_('ZeroDivisionError', node=node)
            if isreal:
                # x % y = x - y*floor(x/y)
                return ZV(x - y * z3.ToReal(z3.ToInt(x / y)))
            if z3.is_int_value(y) and y.as_long() > 0:
                return ZV(x % y)
            self.unsupported('int modulo by a non-literal', node)
        if top is ast.Pow:
            if isinstance(b, Con) and isinstance(b.v, int) and 0 <= b.v <= 8:
                if b.v == 0:
                    return ZV(z3.RealVal(1) if isreal else z3.IntVal(1))
                r = x
                for _ in range(b.v - 1):
                    r = r * x
                return ZV(r)
            self.unsupported('power with non-literal exponent', node)
        self.unsupported('binary operator %s' % top.__name__, node)

    def ev_Compare(self, node, fr):
        left = self.ev(node.left, fr)
        res = None
        for op, rn in zip(node.ops, node.comparators):
            right = self.ev(rn, fr)
            c = self.compare(op, left, right, node)
            if len(node.ops) == 1:
                return c
            if self.spec_mode:
                cz = self._z(self.truth(c))
                res = cz if res is None else z3.And(res, cz)
            else:
                if not self.test(c):
                    return Con(False)
                res = c
            left = right
        if self.spec_mode:
            return ZV(res)
        return res

    def user_eq(self, a, b):
        """`==` of the analysed CODE between two objects of a sort whose class is declared
        `value_equality` (user subclasses may define __eq__: dataclass-like components,
        processors): identical objects are equal, otherwise an uninterpreted relation decides
        (`!=` is its negation).  `is`, and `==` inside specifications, stay identity."""
        if isinstance(a, ZV) and isinstance(b, ZV) and a.t.sort() == b.t.sort() and is_usort(a.t.sort()):
            kl = self.spec.sort_classes.get(a.t.sort().name())
            if kl is not None and getattr(kl, 'value_equality', False):
                s = a.t.sort()
                rel = z3.Function('user_eq_' + s.name(), s, s, z3.BoolSort())
                return z3.Or(a.t == b.t, z3.And(a.t != none_of(s), b.t != none_of(s), rel(a.t, b.t)))
        return None

    def eq(self, a, b, node=None):
        """Python == (identity-based for user objects: T4) as z3 Bool / bool."""
        a, b = deref(a), deref(b)
        if isinstance(a, Con) and isinstance(b, Con):
            return a.v == b.v
        if isinstance(a, (ClassV,)) and isinstance(b, ClassV):
            return a.qual == b.qual
        if isinstance(a, ClassV) or isinstance(b, ClassV):
            ca, cb = (a, b) if isinstance(a, ClassV) else (b, a)
            if isinstance(cb, ZV):
                return self.prelude.class_term(self, ca, cb.t.sort()) == cb.t
            return False
        if isinstance(a, TupV) and isinstance(b, TupV):
            if len(a.items) != len(b.items):
                return False
            cs = [self._z(self.eq(x, y)) for x, y in zip(a.items, b.items)]
            return z3.And(*cs) if cs else True
        if isinstance(a, TupV) and isinstance(b, Con) and isinstance(b.v, tuple):
            return self.eq(a, TupV([Con(x) for x in b.v]))
        if isinstance(b, TupV) and isinstance(a, Con) and isinstance(a.v, tuple):
            return self.eq(TupV([Con(x) for x in a.v]), b)
        if isinstance(a, OptV) or isinstance(b, OptV):
            if isinstance(b, OptV) and not isinstance(a, OptV):
                a, b = b, a
            if isinstance(b, Con) and b.v is None:
                return a.isnone
            if isinstance(b, OptV):
                return z3.Or(z3.And(a.isnone, b.isnone),
                             z3.And(z3.Not(a.isnone), z3.Not(b.isnone),
                                    self._z(self.eq(a.val, b.val))))
            return z3.And(z3.Not(a.isnone), self._z(self.eq(a.val, b)))
        if isinstance(a, ZV) or isinstance(b, ZV):
            if isinstance(b, ZV) and not isinstance(a, ZV):
                a, b = b, a
            sa = a.t.sort()
            if isinstance(b, ZV):
                sb = b.t.sort()
                if sa == sb:
                    return a.t == b.t
                if {sa, sb} <= {z3.IntSort(), z3.RealSort(), z3.BoolSort()}:
                    return coerce_term(a, z3.RealSort()) == coerce_term(b, z3.RealSort())
                return False
            if isinstance(b, Con):
                if b.v is None:
                    return a.t == none_of(sa) if is_usort(sa) else False
                if sa in (z3.IntSort(), z3.RealSort()) and isinstance(b.v, (int, float)):
                    return coerce_term(a, z3.RealSort()) == coerce_term(b, z3.RealSort())
                if sa == z3.BoolSort() and isinstance(b.v, bool):
                    return a.t == z3.BoolVal(b.v)
                if sa == z3.StringSort() and isinstance(b.v, str):
                    return a.t == z3.StringVal(b.v)
                if is_usort(sa) and isinstance(b.v, str):
                    return a.t == str_const(sa, b.v)
                zs = getattr(self.spec, 'zero_sentinels', {})
                if is_usort(sa) and isinstance(b.v, int) and not isinstance(b.v, bool) \
                        and b.v == 0 and sa.name() in zs:
                    return a.t == zs[sa.name()]
                return False
            if isinstance(b, TupV):
                return False
        if isinstance(a, SetV) and isinstance(b, SetV):
            return a.arr == b.arr
        if isinstance(a, DictV) and isinstance(b, DictV):
            return self.prelude.dict_eq(self, a, b)
        if isinstance(a, ListV) and isinstance(b, ListV):
            return self.prelude.list_eq(self, a, b)
        if isinstance(a, ExcV) or isinstance(b, ExcV):
            return a is b
        if isinstance(a, (Closure, Builtin, OpenFn, BoundMethod)) or \
                isinstance(b, (Closure, Builtin, OpenFn, BoundMethod)):
            if isinstance(a, Con) or isinstance(b, Con):
                return False
            return a is b
        if isinstance(a, Con) and a.v is None:
            return False
        if isinstance(b, Con) and b.v is None:
            return False
        self.unsupported('equality of %r and %r' % (a, b), node)

    def compare(self, op, a, b, node):
        t = type(op)
        if t in (ast.In, ast.NotIn):
            # the container keeps its location (ChainMap-typed fields)
            r = self.prelude.contains(self, b, deref(a), node)
            if t is ast.NotIn:
                r = (not r) if isinstance(r, bool) else z3.Not(r)
            return Con(r) if isinstance(r, bool) else ZV(r)
        a, b = deref(a), deref(b)
        if t in (ast.Eq, ast.NotEq) and (not self.spec_mode or getattr(self, 'code_eq', 0)):
            r = self.user_eq(a, b)
            if r is not None:
                return ZV(r if t is ast.Eq else z3.Not(r))
        if t in (ast.Eq, ast.Is):
            r = self.eq(a, b, node)
            return Con(r) if isinstance(r, bool) else ZV(r)
        if t in (ast.NotEq, ast.IsNot):
            r = self.eq(a, b, node)
            return Con(not r) if isinstance(r, bool) else ZV(z3.Not(r))
        if t in (ast.In, ast.NotIn):
            r = self.prelude.contains(self, b, a, node)
            if t is ast.NotIn:
                r = (not r) if isinstance(r, bool) else z3.Not(r)
            return Con(r) if isinstance(r, bool) else ZV(r)
        if isinstance(a, Con) and isinstance(b, Con):
            try:
                return Con(native_cmp(op, a.v, b.v))
            except TypeError:
                self.raise_('TypeError', node=node)
        if isinstance(a, ZV) and is_usort(a.t.sort()) or isinstance(b, ZV) and is_usort(b.t.sort()):
            r = self.prelude.abstract_lt(self, op, a, b, node)
            return ZV(r)
        x, y = self.num(a, node), self.num(b, node)
        if x.sort() != y.sort():
            x, y = coerce_term(ZV(x), z3.RealSort()), coerce_term(ZV(y), z3.RealSort())
        if t is ast.Lt:
            return ZV(x < y)
        if t is ast.LtE:
            return ZV(x <= y)
        if t is ast.Gt:
            return ZV(x > y)
        if t is ast.GtE:
            return ZV(x >= y)
        self.unsupported('comparison', node)

    # ------------------------------------------------------------ subscripts
    def ev_Subscript(self, node, fr):
        cont = self.ev(node.value, fr)
        if isinstance(node.slice, ast.Slice):
            return self.prelude.get_slice(self, cont, node.slice, fr, node)
        key = self.ev(node.slice, fr)
        return self.prelude.get_item(self, cont, key, node)

    def ev_Slice(self, node, fr):
        self.unsupported('slice object', node)

    def ev_Starred(self, node, fr):
        self.unsupported('starred expression here', node)

    # ------------------------------------------------------------- attributes
    def ev_ref(self, node, fr):
        """Evaluate an expression used as the receiver of a possibly mutating
        operation: a local variable holding a container value becomes a location."""
        if isinstance(node, ast.Name):
            f, v = fr.lookup(node.id)
            if f is not None and (isinstance(v, (SetV, DictV, ListV))
                                  or (isinstance(v, TupV) and v.is_list)
                                  or (isinstance(v, Con) and isinstance(v.v, (dict, set, list)))):
                name = node.id
                return Loc(lambda f=f, name=name: f.vars[name],
                           lambda nv, f=f, name=name: f.vars.__setitem__(name, nv),
                           None, 'local ' + name)
        return self.ev(node, fr)

    def ev_Attribute(self, node, fr):
        obj = self.ev_ref(node.value, fr)
        return self.get_attr(obj, node.attr, node)

    def get_attr(self, obj, attr, node=None):
        obj0 = obj
        obj = deref(obj) if not isinstance(obj, Loc) else obj
        if isinstance(obj, Loc):
            return self.prelude.container_attr(self, obj, attr, node)
        if isinstance(obj, ModuleV):
            return self.resolve_dotted(obj.name + '.' + attr)
        if isinstance(obj, ClassV):
            return self.class_getattr(obj, attr, node)
        if isinstance(obj, SuperV):
            r = self.repo.find_method(obj.cls_start, attr, after=obj.cls)
            if r is None:
                return self.prelude.super_builtin(self, obj, attr, node)
            m, fn, q = r
            c = Closure(fn, None, m, cls=q)
            return BoundMethod(obj.obj, c) if obj.obj is not None else c
        if isinstance(obj, TupV) and obj.cls:
            r = self.repo.find_method(obj.cls, attr)
            if r is not None:
                m, fn, q = r
                c = Closure(fn, None, m, cls=q)
                if has_decorator(fn, 'property'):
                    return self.call(BoundMethod(obj, c), [], {}, node)
                if has_decorator(fn, 'staticmethod'):
                    return c
                if has_decorator(fn, 'classmethod'):
                    return BoundMethod(ClassV(obj.cls), c)
                return BoundMethod(obj, c)
            # __getattr__ fallback
            r = self.repo.find_method(obj.cls, '__getattr__')
            if r is not None and not attr.startswith('__'):
                m, fn, q = r
                return self.call(BoundMethod(obj, Closure(fn, None, m, cls=q)),
                                 [Con(attr)], {}, node)
            if attr == '__class__':
                return ClassV(obj.cls)
            self.raise_('AttributeError', attr, node=node)
        if isinstance(obj, ZV) and is_usort(obj.t.sort()):
            return self.obj_getattr(obj, attr, node)
        if isinstance(obj, ExcV):
            if attr in obj.fields:
                return obj.fields[attr]
            if attr == 'value' and obj.cls == 'StopIteration':
                return obj.args[0] if obj.args else NONE
            if attr == 'args':
                return TupV(obj.args)
            if '$obj' in obj.fields:
                return self.obj_getattr(obj.fields['$obj'], attr, node)
            self.raise_('AttributeError', attr, node=node)
        if isinstance(obj, (Con, TupV, SetV, DictV, ListV, StrV, OptV, ZV)):
            return self.prelude.container_attr(self, obj0, attr, node)
        if isinstance(obj, Closure) and attr == '__name__':
            return Con(obj.fn.name)
        if isinstance(obj, Builtin) and obj.name == 'type' and attr == '__subclasses__':
            # type.__subclasses__(cls): the unbound form of cls.__subclasses__()
            def unbound(X, args, kw, node_):
                m = X.get_attr(args[0], '__subclasses__', node_)
                return X.call(m, [], {}, node_)
            return Builtin('type.__subclasses__', unbound)
        self.unsupported('attribute %s of %r' % (attr, obj), node)

    def class_getattr(self, cv, attr, node):
        hook = self.spec.class_attr_load.get((cv.qual, attr))
        if hook:
            return hook(self, cv)
        r = self.repo.find_method(cv.qual, attr) if cv.qual.startswith('desper') else None
        if r is not None:
            m, fn, q = r
            c = Closure(fn, None, m, cls=q)
            if has_decorator(fn, 'classmethod'):
                return BoundMethod(cv, c)
            return c
        if cv.qual.startswith('desper'):
            ca = self.repo.class_attr(cv.qual, attr)
            if ca is not None:
                m, expr = ca
                fr = Frame(m)
                return self.ev(expr, fr)
        if attr == '__name__':
            return Con(cv.qual.split('.')[-1])
        v = self.prelude.class_builtin_attr(self, cv, attr, node)
        if v is not None:
            return v
        self.raise_('AttributeError', attr, node=node)

    def obj_getattr(self, obj, attr, node):
        sn = obj.t.sort().name()
        kl = self.spec.sort_classes.get(sn)
        if kl is None:
            self.unsupported('attribute %s on sort %s without class' % (attr, sn), node)
        # declared field?
        _, T = self.field_decl(sn, attr)
        if T is not None:
            self.null_check(obj, node)
            return self.read_field(obj.t, attr)
        hook = kl.find_attr_hook(attr)
        if hook is not None:
            self.null_check(obj, node)
            return hook(self, obj, node)
        k_ = kl
        while k_ is not None:
            if attr in k_.open_methods:
                # declared open (abstract / overridable by user subclasses)
                self.null_check(obj, node)
                return BoundMethod(obj, k_.open_methods[attr])
            k_ = k_.parent
        if kl.qual:
            r = self.repo.find_method(kl.qual, attr)
            if r is not None:
                self.null_check(obj, node)
                m, fn, q = r
                c = Closure(fn, None, m, cls=q)
                if has_decorator(fn, 'property'):
                    return self.call(BoundMethod(obj, c), [], {}, node)
                if has_decorator(fn, 'staticmethod'):
                    return c
                return BoundMethod(obj, c)
            ca = self.repo.class_attr(kl.qual, attr)
            if ca is not None:
                self.null_check(obj, node)
                m, expr = ca
                return self.ev(expr, Frame(m))
        if attr in kl.open_methods:
            self.null_check(obj, node)
            return BoundMethod(obj, kl.open_methods[attr])
        if attr == '__class__':
            return ZV(self.prelude.type_of(self, obj.t))
        self.unsupported('attribute %s on %s' % (attr, sn), node)

    # ------------------------------------------------------------------ calls
    def ev_Call(self, node, fr):
        # spec-only forms
        if (fr.spec or self.lemma_mode) and isinstance(node.func, ast.Name):
            h = self.spec.spec_forms.get(node.func.id)
            if h is not None and fr.lookup(node.func.id)[0] is None:
                return h(self, node, fr)
        if isinstance(node.func, ast.Name) and node.func.id == 'super' and not node.args:
            slf = fr.vars.get(fr.fn.args.args[0].arg) if fr.fn and fr.fn.args.args else None
            sv = SuperV(fr.cls, slf if not isinstance(slf, ClassV) else None)
            sv.cls_start = self.runtime_class(slf) or fr.cls
            return sv
        f = self.ev(node.func, fr)
        args = []
        for a in node.args:
            if isinstance(a, ast.Starred):
                v = self.ev(a.value, fr)
                dv = deref(v)
                if isinstance(dv, ZV) and dv.t.sort().name() == 'ArgPack':
                    args.append(StarPack(dv))
                elif self.has_concrete_len(dv):
                    args.extend(self.iter_concrete(dv, a))
                else:
                    args.append(StarPack(dv))
            else:
                args.append(self.ev(a, fr))
        kwargs = {}
        for k in node.keywords:
            if k.arg is None:
                v = deref(self.ev(k.value, fr))
                if isinstance(v, Con) and isinstance(v.v, dict):
                    kwargs.update(v.v)
                else:
                    kwargs['**'] = v
            else:
                kwargs[k.arg] = self.ev(k.value, fr)
        return self.call(f, args, kwargs, node)

    def runtime_class(self, v):
        v = deref(v) if v is not None else None
        if isinstance(v, TupV) and v.cls:
            return v.cls
        if isinstance(v, ClassV):
            return v.qual
        if isinstance(v, ZV) and is_usort(v.t.sort()):
            kl = self.spec.sort_classes.get(v.t.sort().name())
            return kl.qual if kl else None
        return None

    def call(self, f, args, kwargs, node):
        self.cur_node = node
        if isinstance(f, Builtin):
            return f.fn(self, args, kwargs, node)
        if isinstance(f, BoundMethod):
            func = f.func
            if isinstance(func, Closure):
                return self.call_closure(func, [f.recv] + list(args), kwargs, node, recv=f.recv)
            if isinstance(func, Builtin):
                return func.fn(self, [f.recv] + list(args), kwargs, node)
            if isinstance(func, OpenFn):
                return self.spec.open_call(self, func, f.recv, args, kwargs, node)
        if isinstance(f, Closure):
            return self.call_closure(f, args, kwargs, node)
        if isinstance(f, ClassV):
            return self.construct(f, args, kwargs, node)
        if isinstance(f, OpenFn):
            return self.spec.open_call(self, f, None, args, kwargs, node)
        if isinstance(f, Con) and f.v is None:
            self.raise_('TypeError', 'NoneType is not callable', node=node)
        if isinstance(f, ZV) and is_usort(f.t.sort()):
            return self.spec.call_object(self, f, args, kwargs, node)
        self.unsupported('call of %r' % (f,), node)

    def construct(self, cv, args, kwargs, node):
        hook = self.spec.constructors.get(cv.qual)
        if hook is not None:
            return hook(self, cv, args, kwargs, node)
        if cv.qual in BUILTIN_EXC or cv.qual in self.builtins and cv.qual.endswith('Error'):
            return ExcV(cv.qual, args)
        if cv.qual.startswith('desper'):
            if self.exc_isinstance(cv.qual, 'BaseException'):
                ex = ExcV(cv.qual, args)
                r = self.repo.find_method(cv.qual, '__init__')
                if r is not None:
                    m, fn, q = r
                    self.call_closure(Closure(fn, None, m, cls=q), [ex] + list(args),
                                      kwargs, node, force_inline=True)
                return ex
            r = self.repo.find_method(cv.qual, '__new__')
            if r is not None:
                m, fn, q = r
                return self.call_closure(Closure(fn, None, m, cls=q),
                                         [cv] + list(args), kwargs, node)
            kl = self.spec.class_by_qual.get(cv.qual)
            if kl is not None:
                return self.spec.allocate(self, kl, cv, args, kwargs, node)
        self.unsupported('construction of %s' % cv.qual, node)

    def bind_args(self, fn, args, kwargs, node, fr, defaults_frame):
        a = fn.args
        params = [p.arg for p in a.posonlyargs + a.args]
        kwargs = dict(kwargs)
        nargs = list(args)
        if any(isinstance(x, StarPack) for x in nargs):
            # an opaque *args travels only into a *args parameter
            idx = [i for i, x in enumerate(nargs) if isinstance(x, StarPack)][0]
            if idx < len(params) or a.vararg is None or idx != len(nargs) - 1:
                # positional parameters consumed from an opaque pack
                return self.spec.bind_from_pack(self, fn, nargs, kwargs, node, fr)
            for p, v in zip(params, nargs[:idx]):
                fr.vars[p] = v
            extra = nargs[len(params):idx]
            fr.vars[a.vararg.arg] = self.spec.pack_cons(self, extra, nargs[idx].v)
            nargs = None
        if nargs is not None:
            if len(nargs) > len(params) and a.vararg is None:
                self.raise_('TypeError', 'too many arguments', node=node)
            for p, v in zip(params, nargs):
                fr.vars[p] = v
            if a.vararg is not None:
                fr.vars[a.vararg.arg] = TupV(nargs[len(params):])
        ndef = len(a.defaults)
        for i, p in enumerate(params):
            if p in fr.vars:
                if p in kwargs:
                    self.raise_('TypeError', 'multiple values for ' + p, node=node)
                continue
            if p in kwargs:
                fr.vars[p] = kwargs.pop(p)
                continue
            di = i - (len(params) - ndef)
            if di >= 0:
                fr.vars[p] = self.ev(a.defaults[di], defaults_frame)
            else:
                self.raise_('TypeError', 'missing argument ' + p, node=node)
        for p, d in zip(a.kwonlyargs, a.kw_defaults):
            if p.arg in kwargs:
                fr.vars[p.arg] = kwargs.pop(p.arg)
            elif d is not None:
                fr.vars[p.arg] = self.ev(d, defaults_frame)
            else:
                self.raise_('TypeError', 'missing keyword argument ' + p.arg, node=node)
        if a.kwarg is not None:
            if '**' in kwargs and len(kwargs) == 1:
                fr.vars[a.kwarg.arg] = kwargs.pop('**')
            else:
                fr.vars[a.kwarg.arg] = Con(dict(kwargs))
                kwargs = {}
        elif kwargs:
            self.raise_('TypeError', 'unexpected keyword %s' % list(kwargs), node=node)

    def call_closure(self, c, args, kwargs, node, recv=None, force_inline=False):
        fn = c.fn
        qual = getattr(fn, '_qual', None)
        if qual is not None and not force_inline and not self.spec_mode:
            ct = self.spec.contract_for_call(self, qual)
            if ct is not None:
                return self.spec.call_by_contract(self, ct, c, args, kwargs, node)
        if self.depth > 40:
            self.unsupported('inlining depth exceeded (recursion without contract?)', node)
        fr = Frame(c.module, parent=c.frame, cls=c.cls, fn=fn)
        if c.frame is not None and c.frame.spec:
            fr.spec = True
        dfr = Frame(c.module, parent=c.frame, cls=c.cls)
        self.bind_args(fn, args, kwargs, node, fr, dfr)
        if isinstance(fn, ast.Lambda):
            return self.ev(fn.body, fr)
        saved = self.cur_node
        self.depth += 1
        try:
            self.run_block(front.strip_docstring(fn), fr)
            return NONE
        except _Return as r:
            return r.v
        finally:
            self.depth -= 1
            self.cur_node = saved

    # ------------------------------------------------------- comprehensions
    def ev_GeneratorExp(self, node, fr):
        return self.comprehension(node, fr, 'gen')

    def ev_ListComp(self, node, fr):
        return self.comprehension(node, fr, 'list')

    def ev_DictComp(self, node, fr):
        return self.prelude.dict_comp(self, node, fr)

    def comprehension(self, node, fr, kind):
        # concrete unrolling when every iterable has a static length
        out = []
        sub = Frame(fr.module, parent=fr, cls=fr.cls, fn=None)
        sub.spec = fr.spec

        def rec(gi):
            if gi == len(node.generators):
                out.append(self.ev(node.elt, sub))
                return
            g = node.generators[gi]
            it = self.ev(g.iter, sub)
            if not self.has_concrete_len(it):
                raise _Symbolic()
            for x in self.iter_concrete(it, g.iter):
                self.assign(g.target, x, sub)
                ok = True
                for cond in g.ifs:
                    t = self.truth(self.ev(cond, sub))
                    if not isinstance(t, bool):
                        raise _Symbolic()
                    if not t:
                        ok = False
                        break
                if ok:
                    rec(gi + 1)
        try:
            rec(0)
        except _Symbolic:
            return self.prelude.symbolic_comprehension(self, node, fr, kind)
        return TupV(out, is_list=(kind == 'list'))

    def ev_Yield(self, node, fr):
        if self.yield_acc is None:
            self.unsupported('yield outside a generator consumed by list()', node)
        v = self.ev(node.value, fr) if node.value is not None else NONE
        self.yield_acc(v)
        return NONE


class _Symbolic(Exception):
    pass


class StarPack(Val):
    """`*args` whose length is not known statically (opaque argument pack)."""

    def __init__(self, v):
        self.v = v


class ClassLevel:
    """Field whose value is a function of the object's class (immutable)."""

    def __init__(self, reader):
        self.read = reader


def has_decorator(fn, name):
    for d in getattr(fn, 'decorator_list', []):
        if isinstance(d, ast.Name) and d.id == name:
            return True
        if isinstance(d, ast.Attribute) and d.attr == name:
            return True
    return False


_assigned_cache = {}


def assigned_names(fn):
    k = id(fn)
    if k not in _assigned_cache:
        s = set()
        for n in ast.walk(fn):
            if isinstance(n, ast.Name) and isinstance(n.ctx, (ast.Store, ast.Del)):
                s.add(n.id)
            elif isinstance(n, ast.ExceptHandler) and n.name:
                s.add(n.name)
        _assigned_cache[k] = s
    return _assigned_cache[k]


def native_binop(op, a, b):
    import operator as o
    table = {ast.Add: o.add, ast.Sub: o.sub, ast.Mult: o.mul, ast.Div: o.truediv,
             ast.FloorDiv: o.floordiv, ast.Mod: o.mod, ast.Pow: o.pow,
             ast.BitOr: o.or_, ast.BitAnd: o.and_}
    return table[type(op)](a, b)


def native_cmp(op, a, b):
    import operator as o
    table = {ast.Lt: o.lt, ast.LtE: o.le, ast.Gt: o.gt, ast.GtE: o.ge}
    return table[type(op)](a, b)
